#!/bin/bash
# usage: eval_seeded.sh <property-id> <dir containing patch.diff [+ demo]> [tier]
# Applies the patch to a throw-away worktree of /repo (never to /repo itself),
# checks that it builds and that the baseline suite still passes, then runs the
# property's check against that worktree. Prints DETECTED / MISSED.
id=$1; dir=$(cd "$2" && pwd); tier=${3:-quick}
export GOFLAGS=-mod=mod GOPROXY=off GOSUMDB=off
wt=$(mktemp -d /tmp/verif-eval-XXXX)
git -C /repo worktree add -q --detach "$wt/r" HEAD || exit 2
trap 'git -C /repo worktree remove --force "$wt/r" >/dev/null 2>&1; rm -rf "$wt" /verif/.work/alt-*$(basename "$wt")*' EXIT
if ! git -C "$wt/r" apply "$dir/patch.diff" 2>/dev/null && ! git -C "$wt/r" apply --3way "$dir/patch.diff" >/dev/null 2>&1; then echo "PATCH-DOES-NOT-APPLY"; exit 2; fi
( cd "$wt/r" && go build ./... ) || { echo "DOES-NOT-BUILD"; exit 2; }
if ( cd "$wt/r" && go test -vet=off -count=1 ./... 2>&1 | grep -q "^FAIL\|^---.*FAIL" ); then echo "BASELINE-TESTS-FAIL"; fi
out=$(VERIF_REPO="$wt/r" /verif/run $id $tier 2>&1); rc=$?
echo "$out" | grep -E "^violation|^VIOLATION|^HARNESS|^OK|^runs=" | head -8
if [ $rc -eq 1 ]; then echo "DETECTED $id $dir"; elif [ $rc -eq 0 ]; then echo "MISSED $id $dir"; else echo "CHECK-TROUBLE rc=$rc $id $dir"; fi
