#!/bin/bash
# usage: eval_preserving.sh <dir with patch.diff> <property ids...>
# Applies a property-PRESERVING change to a throw-away worktree and runs the
# given checks against it: every one must pass (a VIOLATION is a false alarm
# unless the change turns out to break the property after all).
dir=$(cd "$1" && pwd); shift
export GOFLAGS=-mod=mod GOPROXY=off GOSUMDB=off
wt=$(mktemp -d /tmp/verif-pres-XXXX)
git -C /repo worktree add -q --detach "$wt/r" HEAD || exit 2
trap 'git -C /repo worktree remove --force "$wt/r" >/dev/null 2>&1; rm -rf "$wt" /verif/.work/alt-*$(basename "$wt")*' EXIT
git -C "$wt/r" apply "$dir/patch.diff" 2>/dev/null || git -C "$wt/r" apply --3way "$dir/patch.diff" >/dev/null 2>&1 || { echo "PATCH-DOES-NOT-APPLY $dir"; exit 2; }
( cd "$wt/r" && go build ./... ) || { echo "DOES-NOT-BUILD $dir"; exit 2; }
if ( cd "$wt/r" && go test -vet=off -count=1 ./... 2>&1 | grep -q "^FAIL\|^---.*FAIL" ); then echo "BASELINE-TESTS-FAIL $dir"; fi
for id in "$@"; do
  out=$(VERIF_REPO="$wt/r" /verif/run $id quick 2>&1); rc=$?
  case $rc in
    0) echo "PASS $id $dir";;
    1) echo "ALARM $id $dir"; echo "$out" | grep -E "^violation" | head -4; mkdir -p /tmp/pres-alarms; cp $(echo "$out" | grep "^VIOLATION" | head -2 | sed 's/.*replay=//') /tmp/pres-alarms/ 2>/dev/null;;
    *) echo "TROUBLE rc=$rc $id $dir"; echo "$out" | grep -E "^HARNESS|^WATCHDOG" | head -3;;
  esac
done
