#!/bin/bash
# Runs the thorough tier of every check, one after the other; prints a summary.
# usage: ./thorough_all.sh [seed]
ROOT="$(cd "$(dirname "${BASH_SOURCE[0]}")" && pwd)"
cd "$ROOT"
[ -n "${1:-}" ] && export VERIF_SEED=$1
rc=0
for id in C17 C09 C02 C08 C01 C03 C04 C20 C14 C13 C15 C18; do
  echo "=== $id thorough $(date +%T)"
  ./run $id thorough > "$ROOT/.work-thorough-$id.log" 2>&1
  e=$?
  tail -3 "$ROOT/.work-thorough-$id.log"
  grep -E "^VIOLATION|^KNOWN-FINDING|^HARNESS|^warning" "$ROOT/.work-thorough-$id.log" | head -10
  echo "=== $id exit=$e"
  [ $e -ne 0 ] && rc=1
done
exit $rc
