#!/bin/bash
# Re-evaluates every stored seeded change with the current checks (quick tier),
# three at a time; prints one line per change and a summary. Exit 1 if any is missed.
cd /verif
ls -d seeded/C* | xargs -P 3 -I{} bash -c 'd={}; id=$(python3 -c "import json,sys;print(json.load(open(sys.argv[1]+\"/meta.json\")).get(\"check\",\"\"))" $d); [ -n "$id" ] || id=$(basename $d | cut -d- -f1); r=$(./eval_seeded.sh $id $d 2>&1 | tail -1 | awk "{print \$1}"); echo "$r $d"' | sort > /tmp/regress-seeded.out
cat /tmp/regress-seeded.out
n=$(grep -c "^DETECTED" /tmp/regress-seeded.out); t=$(wc -l < /tmp/regress-seeded.out)
echo "detected $n of $t"
[ "$n" = "$t" ]
