#!/usr/bin/env python3
# Writes MANIFEST.json from the tables below (kept as a script so the file stays consistent).
import json
NA = {
 "C05": "AMF0 marshal/unmarshal/Size() are pure single-threaded functions of a value tree or byte string: no schedule, clock, fault, I/O or second party for a simulator to own (input generation/differential testing is a different technique).",
 "C06": "Conformance of AMF0 bytes to the specification is a differential comparison of two pure codecs over inputs; nothing to schedule or fault.",
 "C07": "Quantifies over input byte strings only (fuzzing territory). The simulated runs of C02/C08/C09/C14/C17 treat a panic or hang of the stream decoders they drive as a violation of their own property, but that does not decide C07.",
 "C10": "FLV audio/video tag-body packagers are pure bit-packing functions of a frame struct or byte slice.",
 "C11": "ADTS/AudioSpecificConfig encode/decode are pure functions of a config and a byte slice (multi-frame decoding iterates over a slice, not I/O).",
 "C12": "AVC record/sample/NALU codecs are pure functions of byte slices.",
 "C16": "JOSE sign/verify/encrypt/decrypt and JWK codecs are pure functions of keys, payloads and random bytes; tamper resistance is a statement over inputs with no transport or interleaving in it.",
 "C19": "Both halves of the HTTP envelope are pure functions of (value|error, callback) and of the body bytes; the one nondeterministic element between them (TCP segmentation) is absorbed by net/http, not repository code.",
}
CH = {
 "C17": dict(level="exploration", design="3/C17", technique="deterministic simulation: seeded sim reader (segmentation/EOF placement) + stdlib reference decoder oracle",
   text="Seeded search over generated JSON documents x comment decorations x read segmentations (down to 1 byte, forced boundaries inside two-byte markers/escapes) x EOF placement; oracle = encoding/json on the undecorated text plus byte-for-byte pass-through of comment-free documents. Sampling, not proof; this is the I/O dimension of the property (where reads end decides the split function's behaviour).",
   note="Trusted: encoding/json as reference decoder; the document generator only emits valid JSON (checked per run, invalid ones are discarded and counted)."),
}
CH["C01"] = dict(level="exploration", design="3/C01", technique="deterministic simulation: two real endpoints + 4 scheduled tasks on a sim transport, seeded schedule/segmentation search, reference chunk parser on the wire",
   text="Seeded search over message sequences x Set Chunk Size announcements by either side at any position x per-direction read/write segmentation (down to 1 byte) x task interleavings of writer and reader tasks of two real Protocol endpoints after the real simple handshake. Oracles: read-back sequence equals written sequence (type, stream id, timestamp, payload), clean EOF at the end, and an independent RTMP 1.0 chunk parser must re-derive the same messages from the recorded wire with the chunk size in force. Sampling, not proof.",
   note="Trusted: reference chunk parser (ref/rtmp.go), stream-id recovery by header re-serialisation. Set Chunk Size is announced via WritePacket only.")
CH["C09"] = dict(level="exploration", design="3/C09", technique="deterministic simulation: sim disk with recorded writes and seeded read segmentation + reference FLV v1 parser/writer as invariant and peer",
   text="Seeded search over header flags x tag sequences with boundary sizes/timestamps x writer (library muxer or reference writer) x read segmentation of the sim disk (down to 1 byte). Invariant after every WriteHeader/WriteTag event: the durable bytes parse under a strict reference FLV v1 parser to exactly the tags written and equal the reference writer's bytes; demuxed tags equal written tags; clean EOF after the last tag. Sampling, not proof; the crash/torn-tail dimension is C08's.",
   note="Trusted: reference FLV parser/writer (ref/flv.go).")
CH["C08"] = dict(level="fault_enumeration", design="3/C08", technique="deterministic simulation with fault injection: per sampled workload, every cut offset / read-call / write-call / scheduler-step fault position is executed against a fault-free baseline",
   text="For each seeded workload (RTMP session of two real endpoints incl. handshake; FLV file; nesting of errors constructors) the fault-free run is recorded, then every position of one fault dimension is executed: cut at every byte offset, sticky sentinel read error at every read call (0 or >0 bytes alongside), sentinel write error at every write call (zero/partial/full acceptance), error-free short write at every write call, endpoint close at every scheduler step; FLV write faults are followed by reading the torn file. Oracle: the call in progress fails; errors.Cause is identical to the injected sentinel (io.EOF/io.ErrUnexpectedEOF for cuts, io.ErrShortWrite for short writes); returned items are exactly those whose last byte lies before the fault; message chain kept. Positions are exhaustive per workload, workloads are sampled.",
   note="Trusted: baseline run of the same plan for byte offsets; injected errors are sticky. RTMP handshake region is sampled (boundaries +-2 and a stride) in 90% of workloads and exhaustive in 10%.")
CH["C02"] = dict(level="exploration", design="3/C02", technique="deterministic simulation: real reader against a reference spec chunker stub over a sim reader; seeded chunk-level interleaving, header-type choices, rule-breaking injections and read segmentation",
   text="Seeded search over chunk traces a conformant RTMP 1.0 sender can emit (up to 6 chunk streams with ids 2..65599 in 1/2/3-byte form, all legal header-type mixes with deltas and extended timestamps, chunk-level interleaving, Set Chunk Size in between) x read segmentation; oracle: decoded messages equal the chunker's in completion order with 31-bit timestamps, clean EOF. 32% of traces carry one injected rule-breaking chunk (or the librtmp ping form) with the expected verdict: error at the offending chunk, nothing fabricated; ping form accepted. Sampling, not proof.",
   note="Trusted: reference chunker (ref/chunker.go), cross-checked on every conformant trace by the independent reference parser (ref/rtmp.go).")
CH["C03"] = dict(level="exploration", design="3/C03", technique="deterministic simulation: two real endpoints on a sim transport, seeded packet/transaction sequences and schedules, sequential transaction-map model replayed over the event log",
   text="Seeded search over WritePacket sequences of every constructible packet with generated fields (AMF0 trees, colliding transaction ids, responses for outstanding/consumed/never-sent ids, typed waits) x segmentation x interleavings of 4 tasks after the real handshake. Invariants at send: MarshalBinary length == Size(), a fresh packet of the type unmarshals and re-marshals identically. At receive: DecodeMessage returns the Go type the dispatch defines (a _result: the response type of the model's outstanding request, exactly once; no request: error), re-marshalling gives the received payload; ExpectPacket/ExpectMessage return the first arriving packet/message of the type. 2% of plans sweep all 65536 user-control event types. Sampling, not proof.",
   note="Trusted: transaction-map model; AMF0 values are pre-filtered by an own encode/decode round trip and reported under the separate key C03/amf0-tree; createStream/play accepted as generic CallPacket.")
CH["C04"] = dict(level="exploration", design="3/C04", technique="deterministic simulation: tape-driven scheduler over writer/reader/peer tasks with post-deposit yields; direct event-log oracle + porcupine linearizability cross-check; same plans on raw-futex gates under the race detector",
   text="Seeded search over request sequences x peer answer modes (at once/delayed/at end/duplicated) x segmentation x interleavings of W (marshal, transport writes, bookkeeping), R (read, decode, lookup) and peer P, including P answering and R decoding inside W's write call. Oracle on the ordered event log: every first response decoded after its request's last byte was deposited must be matched with the request's response type; a second response for the same id must be rejected; none lost. Cross-check with porcupine against a sequential map. Race phase: identical plans with scheduler gates built from raw futex syscalls in //go:norace code, so the detector sees only the library's own synchronisation; a report naming two go-oryx-lib accesses is a violation.",
   note="Trusted: deposit step bookkeeping of the sim transport; porcupine; Go race detector (reports are true positives; absence covers only access pairs that occurred).")
CH["C20"] = dict(level="exploration", design="3/C20", technique="deterministic simulation: public API with the real sampler goroutine inside a testing/synctest bubble (fake clock), scripted counter source with stalls, reference model of the statement",
   text="Seeded search over (time, counter) histories (growth, bursts, stalls, jumps, resets, wrap-around) x source stalls that make the sampling instants irregular x Average() calls, 45 s to 2 h of simulated time per run. The meter runs through its public API with its real 10 s sampler goroutine on a fake clock. Oracle: for gap-free sampling of a non-decreasing counter every window reports exactly increase/W when due and is unchanged otherwise (x8/1000 for kbit/s); otherwise a changed rate must equal increase/W against some earlier observation at least W old (0 when the counter is not above it); always finite and non-negative; Average = total increase / time since the first non-zero Average() observation; getters before Start are refused, none panics afterwards. Sampling, not proof.",
   note="Trusted: testing/synctest fake clock (go1.26.8); the model reads the statement, not the code (nominal window length, modular signed increase).")
CH["C13"] = dict(level="exploration", design="3/C13", technique="deterministic simulation: client and server Conn through the real handshake on a sim transport, 4 scheduled tasks, seeded API/size/buffer/compression configuration swarm, reference RFC 6455/7692 parser on the recorded wire",
   text="Seeded search over message sequences x write API x read API x role x compression negotiation/level/toggling x buffer sizes x subprotocols x transport segmentation x schedules. Oracles: per direction the received (type, payload) sequence equals the written one; every byte after the handshake parses under an independent strict RFC 6455/7692 frame parser (opcode, FIN/continuation sequencing, masking by role, minimal length form, control-frame rules, RSV1 only on the first frame of a compressed message, inflate reproduces the payload); handshake lines re-derived independently (101, Sec-WebSocket-Accept, extension/subprotocol only if offered). Sampling, not proof.",
   note="Trusted: reference frame parser/inflater (ref/ws.go, compress/flate), net/http for parsing the recorded handshake.")
CH["C14"] = dict(level="exploration", design="3/C14", technique="deterministic simulation: real reader endpoint (either role, real handshake) against a reference frame-encoder stub over a sim transport with cuts and segmentation; RFC 6455 receiver state machine as model",
   text="Seeded search over frame sequences (random over the abstract alphabet opcode x FIN x RSV x mask x length form incl. 2^31, 2^63-1, 2^63, 2^64-1, and valid conversations with one injected oddity) x role x read limit relative to sizes x cut at any offset x read segmentation x buffer size x read API. Oracle: delivered messages equal the model's up to the first violation; there the read fails, stays failed with the same error, and the endpoint's recorded replies parse as pongs (identical payloads, in order) followed by exactly one Close 1002; top-bit lengths never deliver anything; limit breaches give ErrReadLimit under any fragmentation; cuts end in an error. Sampling, not proof.",
   note="Trusted: reference encoder/parser, the receiver model (unbounded-integer accounting). Deliberately not demanded: limit-breach status code, 1-byte close body, codes 1012-1014, text UTF-8 validation.")
CH["C15"] = dict(level="exploration", design="3/C15", technique="deterministic simulation: tape-driven scheduler inside a testing/synctest bubble (fake clock, lock-blocked tasks detected by quiescence), yield points at every transport write incl. between the two buffers of one frame, stall faults past control deadlines; same task set on raw-futex gates under the race detector",
   text="Seeded search over interleavings of one data writer (multi-frame and two-buffer frames), a reader answering pings, up to 4 control-frame senders with zero/generous/tight deadlines and a closer, with stall faults advancing the fake clock while a lock holder is parked. Oracle on the recorded transport writes (with the writing task of each): the bytes parse as whole RFC 6455 frames; a transport write that starts inside a frame comes from the task that began it; data messages whose call returned nil are on the wire intact and in order; each control call that returned nil has its (uniquely tagged) frame exactly once, each failing/timed-out one not at all; nothing follows a Close frame and every message-completing call invoked after it returns ErrCloseSent. Race phase: same tasks, futex gates at API boundaries, -race; reports naming two go-oryx-lib accesses are violations.",
   note="Trusted: synctest quiescence detection; reference frame parser; race detector. Harness code inside race-engine tasks avoids fmt/sync.Pool so that it adds no happens-before edges.")
def main():
    import os
    extra = {}
    p = "/verif/manifest_checks.json"
    if os.path.exists(p):
        extra = json.load(open(p))
    CH.update(extra)
    checks = []
    for k in sorted(CH):
        c = CH[k]
        checks.append({
          "property_id": k,
          "quick_cmd": f"./run {k} quick",
          "thorough_cmd": f"./run {k} thorough",
          "evidence_file": f"/verif/evidence/{k}.json",
          "replay_cmd_template": f"./run replay {k} {{path}}",
          "engine": "sim",
          "level_claimed": {"category": c["level"], "text": c["text"], "design_ref": c["design"]},
          "level_note": c["note"],
          "technique": c["technique"],
        })
    m = {
     "version": 1,
     "setup_cmd": "./setup",
     "hooks": {"guard": "verif", "enable": "no hook in /repo is needed: every seam used already exists (io.ReadWriter, Dialer.NetDial, http.Hijacker, logger.Switch, Krps/KbpsSource, testing/synctest); the one missing seam (logger id counter) is provided by a go/ast rewrite of a scratch copy at check time", "baseline_off_cmd": "cd /repo && go test -vet=off -count=1 ./...", "source_commits": [], "add_only": True},
     "engines": [{"name": "sim", "path": "/verif/sim", "serves_properties": sorted(CH), "kind_free_text": "deterministic simulation with fault injection: seeded plan generator, tape-driven cooperative scheduler over real goroutines (channel gates / testing/synctest bubble / raw-futex gates for the race detector), simulated transport and disk with cut/error/short-write/segmentation faults, reference codecs and models as oracles, ddmin shrinker, replay files"}],
     "checks": checks,
     "not_applicable": [{"property_id": k, "reason": NA[k]} for k in sorted(NA)],
     "notes": "See DESIGN.md. ./run <id> <tier> rebuilds the check's test binary against /repo's working tree (replace directive), runs 16 worker processes, shrinks and replay-verifies violations, writes evidence/<id>.json. Exit 0 held / 1 violation / 2 build, watchdog or harness trouble.",
    }
    json.dump(m, open("/verif/MANIFEST.json","w"), indent=1)
    print("manifest:", len(checks), "checks,", len(NA), "n/a")
main()
