#!/bin/bash
# usage: tools_shrink.sh <ID> <phase> <plan.json> : shrink a failing plan in-process and print the minimised plan
id=$1; ph=$2; plan=$3
key=$(python3 -c "import json;print(json.load(open('$plan'))['violation_key'])")
out=/tmp/shrink-$$.json
VERIF_MODE=shrink VERIF_PLAN=$plan VERIF_KEY="$key" VERIF_RESULT=$out VERIF_OUT=/tmp VERIF_SHRINK_MS=30000 /verif/.build/$id-$ph.test -test.run '^TestCheck$' | head -2
python3 -c "
import json
d=json.load(open('$out'))
print('KEY', d['violation_key']); print('cfg', d.get('cfg')); print('ops', d.get('ops')); print('tape', d.get('tape'), d.get('tape_seed')); print('faults', d.get('faults')); print(d['violation_detail'][:900])"
rm -f $out
