#!/bin/bash
# usage: batch_eval.sh <prefix dir, e.g. /tmp/w4-> <ids...> : confirm and evaluate every mN of each id (3 in parallel)
pre=$1; shift
for id in "$@"; do for d in ${pre}${id}/seeded/m*; do echo "$id $d"; done; done | xargs -P 3 -L 1 bash -c '
id=$0; d=$1; m=$(basename $d)
c=$(/verif/confirm_seeded.sh $d 2>&1 | tail -1)
case "$c" in CONFIRMED) ;; *) c2=$(/verif/confirm_seeded.sh $d -race 2>&1 | tail -1); [ "$c2" = "CONFIRMED" ] && c="CONFIRMED(-race)";; esac
e=$(/verif/eval_seeded.sh $id $d 2>&1)
v=$(echo "$e" | tail -1 | awk "{print \$1}")
k=$(echo "$e" | grep "^violation key" | sed "s/violation key=//; s/ seed.*//" | tr "\n" " ")
echo "$id $m | $c | $v | $k"' | sort
