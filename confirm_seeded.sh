#!/bin/bash
# usage: confirm_seeded.sh <dir with patch.diff and demo_test.go> [-race]
# Confirms, in a throw-away worktree of /repo: the demo passes on the clean tree;
# with the patch the tree builds, the baseline suite passes and the demo fails.
dir=$(cd "$1" && pwd); race=${2:-}
export GOFLAGS=-mod=mod GOPROXY=off GOSUMDB=off
pkg=$(grep -m1 '^package ' "$dir/demo_test.go" | awk '{print $2}' | sed 's/_test$//')
wt=$(mktemp -d /tmp/verif-confirm-XXXX)
git -C /repo worktree add -q --detach "$wt/r" HEAD || exit 2
trap 'git -C /repo worktree remove --force "$wt/r" >/dev/null 2>&1; rm -rf "$wt"' EXIT
cd "$wt/r"
cp "$dir/demo_test.go" "$pkg/zz_seeded_demo_test.go"
clean=$(go test $race -vet=off -count=1 ./$pkg/ 2>&1 | tail -1)
rm "$pkg/zz_seeded_demo_test.go"
git apply "$dir/patch.diff" 2>/dev/null || git apply --3way "$dir/patch.diff" >/dev/null 2>&1 || { echo "patch does not apply"; exit 2; }
build=$(go build ./... 2>&1 | tail -1)
base=$(go test -vet=off -count=1 ./... 2>&1 | grep -c "^FAIL\|^--- FAIL")
cp "$dir/demo_test.go" "$pkg/zz_seeded_demo_test.go"
patched=$(go test $race -vet=off -count=1 ./$pkg/ 2>&1 | tail -1)
echo "pkg=$pkg clean: [$clean] build: [${build:-ok}] baseline-failures-with-patch: $base patched-demo: [$patched]"
case "$clean" in ok*) ;; *) echo "NOT-CONFIRMED (demo fails on clean tree)"; exit 1;; esac
[ "$base" = "0" ] || { echo "NOT-CONFIRMED (baseline fails with patch)"; exit 1; }
case "$patched" in FAIL*) echo "CONFIRMED";; *) echo "NOT-CONFIRMED (demo passes with patch)"; exit 1;; esac
