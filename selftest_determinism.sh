#!/bin/bash
# Determinism self-test: for every check, N seeds are run in several separate
# processes at GOMAXPROCS 1/4/16 (oracle engines) and the (plan hash, event-log
# hash, verdict) lines are diffed. Usage: ./selftest_determinism.sh [seeds] [procs]
export GOFLAGS=-mod=mod GOPROXY=off GOSUMDB=off GOTOOLCHAIN=local
N=${1:-200}; P=${2:-10}
cd /verif/sim || exit 2
GO=/opt/veriftools/go1.26.8/bin/go
out=$(mktemp -d /tmp/verif-det-XXXX)
fail=0
for id in c01 c02 c03 c04 c08 c09 c13 c14 c15 c17 c20; do
  $GO test -c -o $out/$id.test ./checks/$id || { echo "build $id failed"; exit 2; }
  i=0
  for gmp in 1 4 16; do
    for r in $(seq 1 $P); do
      i=$((i+1))
      ( GOMAXPROCS=$gmp VERIF_MODE=hashes VERIF_SEED0=777000 VERIF_COUNT=$N VERIF_TIER=quick $out/$id.test -test.run '^TestCheck$' -test.count 1 2>/dev/null | grep '^H ' > $out/$id.$i.log ) &
    done
    wait
  done
  ref=$out/$id.1.log
  lines=$(wc -l < $ref)
  bad=0
  for f in $out/$id.*.log; do cmp -s $ref $f || bad=$((bad+1)); done
  echo "$id: $lines seeds x $i processes (GOMAXPROCS 1/4/16): $bad differing logs"
  [ $bad -ne 0 ] && fail=1
  [ $lines -lt $N ] && { echo "  only $lines of $N seeds produced output"; fail=1; }
done
rm -rf $out
exit $fail
