#!/usr/bin/env python3
"""usage: store_wave.py <wave-no> <prefix e.g. /tmp/w10-> <batch_eval output file> "<what the agents were pointed at>"
Stores every CONFIRMED change of a wave under /verif/seeded/<id>-w<N>m<k>/ (patch.diff, the
demonstration as demo_test.go.txt, the agent's note, meta.json with the first verdict)."""
import json, os, shutil, sys

wave, pre, res, aim = sys.argv[1], sys.argv[2], sys.argv[3], sys.argv[4]
for line in open(res):
    parts = [p.strip() for p in line.split('|')]
    if len(parts) < 4 or not parts[0].startswith('C'):
        continue
    pid, m = parts[0].split()
    conf, verdict, keys = parts[1], parts[2], parts[3].split()
    src = f'{pre}{pid}/seeded/{m}'
    if not conf.startswith('CONFIRMED'):
        print('not stored (not confirmed):', pid, m, conf)
        continue
    dst = f'/verif/seeded/{pid}-w{wave}{m}'
    os.makedirs(dst, exist_ok=True)
    shutil.copy(f'{src}/patch.diff', f'{dst}/patch.diff')
    shutil.copy(f'{src}/demo_test.go', f'{dst}/demo_test.go.txt')
    note = ''
    if os.path.exists(f'{src}/note.txt'):
        shutil.copy(f'{src}/note.txt', f'{dst}/AGENT_README.md')
        note = open(f'{src}/note.txt').read()
    title = (note.strip().splitlines() or ['?'])[0].strip()
    meta = {
        'property': pid,
        'change': title,
        'needs': ' '.join(note.strip().splitlines()[1:])[:900],
        'author': f'independent sub-agent (wave {wave}: {aim}), given only the property text, the titles of earlier changes and a scratch worktree',
        'confirmed': conf,
        'ran': [f'./confirm_seeded.sh {src}' + (' -race' if 'race' in conf else ''), f'./eval_seeded.sh {pid} {src}'],
        'first_verdict': verdict,
        'quick_check_verdict': verdict,
        'violation_keys': keys,
    }
    json.dump(meta, open(f'{dst}/meta.json', 'w'), indent=1)
    print('stored', dst, verdict)
