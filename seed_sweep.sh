#!/bin/bash
# usage: seed_sweep.sh <first> <last> : quick tier of every check for each seed; prints anything that is not OK
ROOT="$(cd "$(dirname "${BASH_SOURCE[0]}")" && pwd)"; cd "$ROOT"
bad=0
for s in $(seq $1 $2); do
  for id in C01 C02 C03 C04 C08 C09 C13 C14 C15 C17 C18 C20; do
    out=$(VERIF_SEED=$s ./run $id quick 2>&1); rc=$?
    if [ $rc -ne 0 ]; then bad=$((bad+1)); echo "seed=$s $id rc=$rc"; echo "$out" | grep -E "^violation|^VIOLATION|^HARNESS|^WATCHDOG" | head -5; fi
  done
  echo "seed $s done $(date +%T) bad=$bad"
done
exit $bad
