#!/bin/bash
# Re-runs the relevant quick checks against every stored property-preserving
# change (two at a time). Any ALARM is a false alarm of a check.
cd /verif
ls -d preserving/*/ | xargs -P 4 -I{} bash -c 'd={}; ids=$(python3 -c "import json;print(\" \".join(json.load(open(\"$d/meta.json\")).get(\"checks_run\",[\"C20\"])))"); ./eval_preserving.sh $d $ids 2>&1' | sort > /tmp/regress-preserving.out
grep -c "^PASS" /tmp/regress-preserving.out
grep -v "^PASS" /tmp/regress-preserving.out
