#!/bin/bash
# Runs the thorough tier of the given checks, one after the other.
# usage: ./thorough_some.sh <seed> <id>...
ROOT="$(cd "$(dirname "${BASH_SOURCE[0]}")" && pwd)"
cd "$ROOT"
export VERIF_SEED=$1; shift
rc=0
for id in "$@"; do
  echo "=== $id thorough $(date +%T)"
  ./run $id thorough > "$ROOT/.work-thorough-$id.log" 2>&1
  e=$?
  tail -3 "$ROOT/.work-thorough-$id.log"
  grep -E "^VIOLATION|^KNOWN-FINDING|^HARNESS|^warning" "$ROOT/.work-thorough-$id.log" | head -10
  echo "=== $id exit=$e"
  [ $e -ne 0 ] && rc=1
done
exit $rc
