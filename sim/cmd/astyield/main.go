// astyield <dir>: rewrite the package in dir in place (see package astyield).
package main

import (
	"fmt"
	"os"

	"verif/sim/astyield"
)

func main() {
	st, err := astyield.RewriteDir(os.Args[1])
	if err != nil {
		fmt.Fprintln(os.Stderr, err)
		os.Exit(1)
	}
	fmt.Printf("astyield: %d files, %d yields, %d split compound assignments\n", st.Files, st.Yields, st.Splits)
}
