package main

import "time"

var stdAssume = []string{
	"every run is a pure function of its plan (replay file); plans come from one PCG generator seeded by VERIF_SEED",
	"reference codecs/models written from the specifications are trusted (cross-validated against the library on fault-free runs)",
	"sampling, not enumeration: a clean batch is evidence, not proof",
}

var metas = map[string]*checkMeta{
	"C17": {
		ID: "C17", Level: "exploration",
		Phases: []phase{{Name: "seg", Pkg: "checks/c17",
			Quick: tierCfg{Count: 6000, Budget: 60 * time.Second},
			Thor:  tierCfg{Count: 400000, Budget: 15 * time.Minute}}},
		Rule: "plan = generated JSON document (value tree over a quote/backslash/slash/star/apostrophe/newline-rich string alphabet, decorated with // and /* */ comments at token boundaries, optional >64KiB pad, EOF placement) x read segmentation (whole, 1 byte, tape-random, small, chunky) x forced read boundary inside a two-byte marker or escape pair. Non-trivial = the document has at least one comment or at least one read returned fewer bytes than available. Distinct = distinct plan bodies.",
		Components: map[string]string{"json.Unmarshal/NewJsonPlusReader": "real", "input reader (segmentation, EOF)": "sim reader (simnet.Pipe)", "oracle": "encoding/json on the undecorated text (stdlib)"},
		Assumptions: stdAssume,
		Faults:      []string{"short_reads", "one_byte_reads", "forced_split_inside_marker"},
		Probes:      []string{"docs_with_comments", "docs_with_escaped_quote", "docs_over_64KiB", "forced_split_inside_marker", "passthrough_checked"},
	},
	"C09": {
		ID: "C09", Level: "exploration",
		Phases: []phase{{Name: "disk", Pkg: "checks/c09",
			Quick: tierCfg{Count: 4000, Budget: 60 * time.Second},
			Thor:  tierCfg{Count: 300000, Budget: 15 * time.Minute}}},
		Rule: "plan = header flags x tag sequence (type any byte, 32-bit timestamps around 2^24 and 2^32-1, sizes 0/1/255/256/65535/65536/2^24-1(rationed)/random) x writer (library muxer or reference writer) x read segmentation of the sim disk. Non-trivial = at least one tag and (a short read occurred or the library muxer wrote the file). Distinct = distinct plan bodies.",
		Components: map[string]string{"flv.Muxer/flv.Demuxer": "real", "file": "sim disk (simnet.Pipe, recorded writes)", "layout oracle": "reference FLV v1 parser + writer (ref/flv.go, stub written from the spec)"},
		Assumptions: stdAssume,
		Faults:      []string{"short_reads", "one_byte_reads"},
		Probes:      []string{"tags_ts_over_24bit", "tags_size_over_64KiB", "tags_empty", "tags_max_size", "files_written_by_muxer", "files_written_by_reference"},
	},
	"C01": {
		ID: "C01", Level: "exploration",
		Phases: []phase{{Name: "session", Pkg: "checks/c01",
			Quick: tierCfg{Count: 1500, Budget: 90 * time.Second},
			Thor:  tierCfg{Count: 150000, Budget: 20 * time.Minute}}},
		Rule: "plan = per-endpoint op sequence (WriteMessage of generated messages: type, stream id, timestamp class around 0/0xFFFFFF/2^31-1, length class around k*chunk size/65535/65536/2^24-1(rationed); WritePacket(SetChunkSize n) by either side at any position) x per-direction read/write segmentation (down to 1 byte) x schedule tape over 4 tasks (writer+reader per endpoint) after the real simple handshake. Non-trivial = at least one op and more than 4 task switches. Distinct = distinct plan bodies.",
		Components: map[string]string{"rtmp.Protocol A and B, rtmp.Handshake": "real", "transport": "sim duplex (simnet)", "wire oracle": "reference RTMP 1.0 chunk parser (ref/rtmp.go, stub written from the spec)", "scheduler": "tape-driven, channel gates"},
		Assumptions: append([]string{"stream ids are recovered by re-serialising the received message header through a recording Protocol (the field is unexported)", "Set Chunk Size is announced through WritePacket(SetChunkSize) (the library's API for it), never as a raw type-1 WriteMessage"}, stdAssume...),
		Faults:      []string{"short_reads", "one_byte_reads", "split_writes", "blocked_reads"},
		Probes:      []string{"set_chunk_size_announced", "messages_extended_timestamp", "messages_multi_chunk", "messages_max_length", "task_switches"},
	},
	"C08": {
		ID: "C08", Level: "fault_enumeration",
		Phases: []phase{{Name: "faults", Pkg: "checks/c08",
			Quick: tierCfg{Count: 60, Budget: 60 * time.Second},
			Thor:  tierCfg{Count: 1500, Budget: 25 * time.Minute}}},
		Rule: "plan = workload (RTMP: handshake + message/SetChunkSize sequence over two real endpoints; FLV: header + tag sequence; errors: a nesting of the errors constructors) + one fault dimension; for that workload EVERY position of the dimension is executed: cut at every byte offset 0..len of a direction/file (handshake region sampled at boundaries +-2 and a stride in 90% of RTMP workloads), sticky sentinel read error at every read-call index (with 0 and >0 bytes alongside), sentinel write error at every write-call index (zero/partial/full acceptance), error-free short write at every write-call index, endpoint close at every scheduler step; FLV write faults are followed by demuxing the torn file. evaluations = fault positions executed. Non-trivial = every executed fault position; distinct = distinct (plan body, fault position).",
		Components: map[string]string{"rtmp.Protocol/Handshake, flv.Muxer/Demuxer, errors": "real", "transport/disk": "sim (simnet) with cut/read-error/write-error/short-write/close faults", "baseline": "fault-free run of the same plan gives byte offsets of every message/tag end"},
		Assumptions: append([]string{"a failed transport stays failed (injected read/write errors are sticky), as real sockets and files behave", "io.EOF and io.ErrUnexpectedEOF are both accepted as the root cause of a cut stream, as the statement says"}, stdAssume...),
		Faults:      []string{"fault_cut", "fault_read_error", "fault_write_error", "fault_short_write", "fault_close", "torn_files_read", "short_reads", "one_byte_reads"},
		Probes:      []string{"workloads_rtmp", "workloads_flv", "error_nestings", "fault_positions_rtmp_cut", "fault_positions_rtmp_rerr", "fault_positions_rtmp_werr", "fault_positions_rtmp_short", "fault_positions_rtmp_close", "fault_positions_flv_cut", "fault_positions_flv_rerr", "fault_positions_flv_werr", "fault_positions_flv_short"},
	},
	"C02": {
		ID: "C02", Level: "exploration",
		Phases: []phase{{Name: "chunker", Pkg: "checks/c02",
			Quick: tierCfg{Count: 4000, Budget: 60 * time.Second},
			Thor:  tierCfg{Count: 400000, Budget: 20 * time.Minute}}},
		Rule: "plan = messages queued on up to 6 chunk streams (ids from {2,3,4,5,63,64,65,100,319,320,321,1000,65598,65599,random} in 1/2/3-byte basic-header form), requested header type 0..3 per message (degraded to a legal one), absolute timestamps producing deltas around 0/0xFFFFFE/0xFFFFFF/0x1000000 and backward jumps, lengths straddling the chunk size, Set Chunk Size messages in between, tape-chosen chunk-level interleaving and read segmentation; 32% of plans inject one rule-breaking chunk (type 0 inside an unfinished message, length changed mid-message, fresh chunk stream starting with type 1/2/3) or the librtmp 0x42 ping form. Non-trivial = at least one message or an injected chunk. Distinct = distinct plan bodies.",
		Components: map[string]string{"rtmp.Protocol.ReadMessage": "real", "peer": "reference RTMP 1.0 chunker (ref/chunker.go, stub written from the spec), cross-checked per run by the reference parser", "transport": "sim reader (segmentation, EOF)"},
		Assumptions: append([]string{"type-3 chunks carry the extended timestamp when the stream's most recent type 0/1/2 header had one (RTMP 1.0 section 5.3.1.3)", "a type-3 header starting a new message right after a type-0 header uses that header's timestamp as its delta (section 5.3.1.2.4)"}, stdAssume...),
		Faults:      []string{"short_reads", "one_byte_reads", "rule_breaking_trace_kind1", "rule_breaking_trace_kind2", "rule_breaking_trace_kind3", "rule_breaking_trace_kind4"},
		Probes:      []string{"msgs_started_with_type0", "msgs_started_with_type1", "msgs_started_with_type2", "msgs_started_with_type3", "chunks_with_extended_timestamp", "type3_chunks_with_extended_timestamp", "basic_header_2byte", "basic_header_3byte", "interleaved_chunks"},
	},
	"C03": {
		ID: "C03", Level: "exploration",
		Phases: []phase{{Name: "packets", Pkg: "checks/c03",
			Quick: tierCfg{Count: 2500, Budget: 60 * time.Second},
			Thor:  tierCfg{Count: 250000, Budget: 20 * time.Minute}}},
		Rule: "plan = per-endpoint sequence of WritePacket ops over every constructible packet (connect/_result, createStream/_result, publish, play, call, closeStream, Set Chunk Size, Window Ack Size, Set Peer Bandwidth, User Control with 1/4/8-byte data; generated AMF0 trees incl. NaN payloads, ECMA and strict arrays; transaction ids from a small colliding pool plus 1000 and 2^38; responses for outstanding, consumed and never-sent ids; optional causal sync ops) or a typed-wait scenario (ExpectPacket/ExpectMessage after control and command traffic), x segmentation x schedule over 4 tasks after the real handshake; 2% of plans sweep all 65536 user-control event types locally. Non-trivial = at least one packet sent. Distinct = distinct plan bodies.",
		Components: map[string]string{"rtmp.Protocol (WritePacket, ReadMessage, DecodeMessage, ExpectPacket, ExpectMessage), amf0": "real", "transport": "sim duplex", "transaction model": "sequential map tid->request name replayed over the event log (stub)"},
		Assumptions: append([]string{"createStream and play have no dispatch case in the library and are accepted as the generic *CallPacket (re-marshalling identically)", "a _result decoded while the matching request's WritePacket call is still in progress may be matched or rejected (that window is C04's subject)", "strings are limited to 65535 bytes (AMF0 short string)"}, stdAssume...),
		Faults:      []string{"short_reads", "one_byte_reads", "split_writes", "blocked_reads"},
		Probes:      []string{"responses_matched", "responses_without_request", "responses_of_other_kind", "responses_in_registration_window", "typed_packet_waits", "typed_message_waits", "packets_skipped_by_waits", "user_control_event_types_swept", "sync_deadlocks_broken"},
	},
}
