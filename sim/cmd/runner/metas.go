package main

import (
	"fmt"
	"os"
	"os/exec"
	"path/filepath"
	"strings"
	"time"

	"verif/sim/astyield"
)

// prepareC18 copies /repo to a scratch directory outside /repo and /verif,
// inserts preemption points into its logger package (go/ast rewrite), and
// points the build at the copy with -modfile. The copy is removed right after
// the build (the test binary is self-contained).
func prepareC18(work string) ([]string, []string, func(), error) {
	return prepareScratch("logger", astyield.Options{}, "c18scratch")
}

// prepareC04: the same for package rtmp, with preemption points in front of every
// statement that touches the outstanding-transaction table or its lock (also
// right before the lock is taken), so that the tape can interleave the writer's
// registration and the reader's lookup at the lock boundaries and not only at
// transport operations.
func prepareC04(work string) ([]string, []string, func(), error) {
	return prepareScratch("rtmp", astyield.Options{Fields: []string{"transactions", "ltransactions"}}, "c04scratch")
}

func prepareScratch(pkg string, opt astyield.Options, tag string) ([]string, []string, func(), error) {
	scratch, err := os.MkdirTemp("", "verif-scratch-")
	if err != nil {
		return nil, nil, nil, err
	}
	cleanup := func() { os.RemoveAll(scratch) }
	dst := filepath.Join(scratch, "repo")
	if out, err := exec.Command("cp", "-r", repoPath, dst).CombinedOutput(); err != nil {
		cleanup()
		return nil, nil, nil, fmt.Errorf("copy: %v %s", err, out)
	}
	os.RemoveAll(filepath.Join(dst, ".git"))
	st, err := astyield.RewriteDirOpts(filepath.Join(dst, pkg), opt)
	if err != nil {
		cleanup()
		return nil, nil, nil, fmt.Errorf("astyield: %v", err)
	}
	if st.Yields == 0 {
		cleanup()
		return nil, nil, nil, fmt.Errorf("astyield inserted no preemption point")
	}
	os.MkdirAll(filepath.Join(dst, "simyield"), 0o755)
	if err := os.WriteFile(filepath.Join(dst, "simyield", "simyield.go"), []byte(astyield.SimyieldSource), 0o644); err != nil {
		cleanup()
		return nil, nil, nil, err
	}
	gm, err := os.ReadFile(filepath.Join(verif, "sim", "go.mod"))
	if err != nil {
		cleanup()
		return nil, nil, nil, err
	}
	mod := strings.Replace(string(gm), "=> /repo", "=> "+dst, 1)
	os.RemoveAll(filepath.Join(dst, "seeded"))
	modfile := filepath.Join(scratch, "go.mod")
	os.WriteFile(modfile, []byte(mod), 0o644)
	if gs, err := os.ReadFile(filepath.Join(verif, "sim", "go.sum")); err == nil {
		os.WriteFile(filepath.Join(scratch, "go.sum"), gs, 0o644)
	}
	fmt.Printf("scratch copy %s: %d preemption points inserted into package %s (%d compound assignments split)\n", dst, st.Yields, pkg, st.Splits)
	return []string{"-modfile=" + modfile, "-tags=" + tag}, nil, cleanup, nil
}

var stdAssume = []string{
	"every run is a pure function of its plan (replay file); plans come from one PCG generator seeded by VERIF_SEED",
	"reference codecs/models written from the specifications are trusted (cross-validated against the library on fault-free runs)",
	"sampling, not enumeration: a clean batch is evidence, not proof",
}

var metas = map[string]*checkMeta{
	"C17": {
		ID: "C17", Level: "exploration",
		Phases: []phase{{Name: "seg", Pkg: "checks/c17",
			Quick: tierCfg{Count: 20000, Budget: 60 * time.Second},
			Thor:  tierCfg{Count: 400000, Budget: 15 * time.Minute}}},
		Rule: "plan = generated JSON document (value tree over a quote/backslash/slash/star/apostrophe/newline-rich string alphabet, decorated with // and /* */ comments at token boundaries, optional >64KiB pad, EOF placement) x read segmentation (whole, 1 byte, tape-random, small, chunky) x forced read boundary inside a two-byte marker or escape pair. Non-trivial = the document has at least one comment or at least one read returned fewer bytes than available. Distinct = distinct plan bodies.",
		Components: map[string]string{"json.Unmarshal/NewJsonPlusReader": "real", "input reader (segmentation, EOF)": "sim reader (simnet.Pipe)", "oracle": "encoding/json on the undecorated text (stdlib)"},
		Assumptions: stdAssume,
		Faults:      []string{"short_reads", "one_byte_reads", "forced_split_inside_marker"},
		Probes:      []string{"docs_with_comments", "docs_with_escaped_quote", "docs_over_64KiB", "forced_split_inside_marker", "passthrough_checked"},
	},
	"C09": {
		ID: "C09", Level: "exploration",
		Phases: []phase{{Name: "disk", Pkg: "checks/c09",
			Quick: tierCfg{Count: 10000, Budget: 60 * time.Second},
			Thor:  tierCfg{Count: 300000, Budget: 15 * time.Minute}}},
		Rule: "plan = header flags x tag sequence (type any byte, 32-bit timestamps around 2^24 and 2^32-1, sizes 0/1/255/256/65535/65536/2^24-1(rationed)/random) x writer (library muxer or reference writer) x read segmentation of the sim disk. Non-trivial = at least one tag and (a short read occurred or the library muxer wrote the file). Distinct = distinct plan bodies.",
		Components: map[string]string{"flv.Muxer/flv.Demuxer": "real", "file": "sim disk (simnet.Pipe, recorded writes)", "layout oracle": "reference FLV v1 parser + writer (ref/flv.go, stub written from the spec)"},
		Assumptions: stdAssume,
		Faults:      []string{"short_reads", "one_byte_reads"},
		Probes:      []string{"tags_ts_over_24bit", "tags_size_over_64KiB", "tags_empty", "tags_max_size", "files_written_by_muxer", "files_written_by_reference"},
	},
	"C01": {
		ID: "C01", Level: "exploration",
		Phases: []phase{{Name: "session", Pkg: "checks/c01",
			Quick: tierCfg{Count: 1500, Budget: 90 * time.Second},
			Thor:  tierCfg{Count: 150000, Budget: 20 * time.Minute}}},
		Rule: "plan = per-endpoint op sequence (WriteMessage of generated messages: type, stream id, timestamp class around 0/0xFFFFFF/2^31-1, length class around k*chunk size/65535/65536/2^24-1(rationed); WritePacket(SetChunkSize n) by either side at any position) x per-direction read/write segmentation (down to 1 byte) x schedule tape over 4 tasks (writer+reader per endpoint) after the real simple handshake. Non-trivial = at least one op and more than 4 task switches. Distinct = distinct plan bodies.",
		Components: map[string]string{"rtmp.Protocol A and B, rtmp.Handshake": "real", "transport": "sim duplex (simnet)", "wire oracle": "reference RTMP 1.0 chunk parser (ref/rtmp.go, stub written from the spec)", "scheduler": "tape-driven, channel gates"},
		Assumptions: append([]string{"stream ids are recovered by re-serialising the received message header through a recording Protocol (the field is unexported)", "Set Chunk Size is announced through WritePacket(SetChunkSize) (the library's API for it), never as a raw type-1 WriteMessage"}, stdAssume...),
		Faults:      []string{"short_reads", "one_byte_reads", "split_writes", "blocked_reads"},
		Probes:      []string{"set_chunk_size_announced", "messages_extended_timestamp", "messages_multi_chunk", "messages_max_length", "task_switches"},
	},
	"C08": {
		ID: "C08", Level: "fault_enumeration",
		Phases: []phase{{Name: "faults", Pkg: "checks/c08", Env: []string{"VERIF_WATCHDOG_MS=900000"},
			Quick: tierCfg{Count: 60, Budget: 60 * time.Second},
			Thor:  tierCfg{Count: 1500, Budget: 25 * time.Minute}}},
		Rule: "plan = workload (RTMP: handshake + message/SetChunkSize sequence over two real endpoints; FLV: header + tag sequence; errors: a nesting of the errors constructors) + one fault dimension; for that workload EVERY position of the dimension is executed: cut at every byte offset 0..len of a direction/file (handshake region sampled at boundaries +-2 and a stride in 90% of RTMP workloads), sticky sentinel read error at every read-call index (with 0 and >0 bytes alongside), sentinel write error at every write-call index (zero/partial/full acceptance), error-free short write at every write-call index, endpoint close at every scheduler step; FLV write faults are followed by demuxing the torn file. A workload with more than 12000 positions in its dimension (thorough tier only) is thinned with a seed-dependent stride, keeping the first and last 200. evaluations = fault positions executed. Non-trivial = every executed fault position; distinct = distinct (plan body, fault position).",
		Components: map[string]string{"rtmp.Protocol/Handshake, flv.Muxer/Demuxer, errors": "real", "transport/disk": "sim (simnet) with cut/read-error/write-error/short-write/close faults", "baseline": "fault-free run of the same plan gives byte offsets of every message/tag end"},
		Assumptions: append([]string{"a failed transport stays failed (injected read/write errors are sticky), as real sockets and files behave", "io.EOF and io.ErrUnexpectedEOF are both accepted as the root cause of a cut stream, as the statement says"}, stdAssume...),
		Faults:      []string{"fault_cut", "fault_read_error", "fault_write_error", "fault_short_write", "fault_close", "torn_files_read", "short_reads", "one_byte_reads"},
		Probes:      []string{"workloads_rtmp", "workloads_flv", "error_nestings", "fault_positions_rtmp_cut", "fault_positions_rtmp_rerr", "fault_positions_rtmp_werr", "fault_positions_rtmp_short", "fault_positions_rtmp_close", "fault_positions_flv_cut", "fault_positions_flv_rerr", "fault_positions_flv_werr", "fault_positions_flv_short"},
	},
	"C02": {
		ID: "C02", Level: "exploration",
		Phases: []phase{{Name: "chunker", Pkg: "checks/c02",
			Quick: tierCfg{Count: 4000, Budget: 60 * time.Second},
			Thor:  tierCfg{Count: 400000, Budget: 20 * time.Minute}}},
		Rule: "plan = messages queued on up to 6 chunk streams (ids from {2,3,4,5,63,64,65,100,319,320,321,1000,65598,65599,random} in 1/2/3-byte basic-header form), requested header type 0..3 per message (degraded to a legal one), absolute timestamps producing deltas around 0/0xFFFFFE/0xFFFFFF/0x1000000 and backward jumps, lengths straddling the chunk size, Set Chunk Size messages in between, tape-chosen chunk-level interleaving and read segmentation; 32% of plans inject one rule-breaking chunk (type 0 inside an unfinished message, length changed mid-message, fresh chunk stream starting with type 1/2/3) or the librtmp 0x42 ping form. Non-trivial = at least one message or an injected chunk. Distinct = distinct plan bodies.",
		Components: map[string]string{"rtmp.Protocol.ReadMessage": "real", "peer": "reference RTMP 1.0 chunker (ref/chunker.go, stub written from the spec), cross-checked per run by the reference parser", "transport": "sim reader (segmentation, EOF)"},
		Assumptions: append([]string{"type-3 chunks carry the extended timestamp when the stream's most recent type 0/1/2 header had one (RTMP 1.0 section 5.3.1.3)", "a type-3 header starting a new message right after a type-0 header uses that header's timestamp as its delta (section 5.3.1.2.4)"}, stdAssume...),
		Faults:      []string{"short_reads", "one_byte_reads", "rule_breaking_trace_kind1", "rule_breaking_trace_kind2", "rule_breaking_trace_kind3", "rule_breaking_trace_kind4", "rule_breaking_trace_kind5"},
		Probes:      []string{"msgs_started_with_type0", "msgs_started_with_type1", "msgs_started_with_type2", "msgs_started_with_type3", "chunks_with_extended_timestamp", "type3_chunks_with_extended_timestamp", "basic_header_2byte", "basic_header_3byte", "interleaved_chunks"},
	},
	"C03": {
		ID: "C03", Level: "exploration",
		Phases: []phase{{Name: "packets", Pkg: "checks/c03",
			Quick: tierCfg{Count: 8000, Budget: 60 * time.Second},
			Thor:  tierCfg{Count: 250000, Budget: 20 * time.Minute}}},
		Rule: "plan = per-endpoint sequence of WritePacket ops over every constructible packet (connect/_result, createStream/_result, publish, play, call, closeStream, Set Chunk Size, Window Ack Size, Set Peer Bandwidth, User Control with 1/4/8-byte data; generated AMF0 trees incl. NaN payloads, ECMA and strict arrays; transaction ids from a small colliding pool plus 1000 and 2^38; responses for outstanding, consumed and never-sent ids; optional causal sync ops) or a typed-wait scenario (ExpectPacket/ExpectMessage after control and command traffic), x segmentation x schedule over 4 tasks after the real handshake; 2% of plans sweep all 65536 user-control event types locally. Non-trivial = at least one packet sent. Distinct = distinct plan bodies.",
		Components: map[string]string{"rtmp.Protocol (WritePacket, ReadMessage, DecodeMessage, ExpectPacket, ExpectMessage), amf0": "real", "transport": "sim duplex", "transaction model": "sequential map tid->request name replayed over the event log (stub)"},
		Assumptions: append([]string{"createStream and play have no dispatch case in the library and are accepted as the generic *CallPacket (re-marshalling identically)", "a _result decoded while the matching request's WritePacket call is still in progress may be matched or rejected (that window is C04's subject)", "strings are limited to 65535 bytes (AMF0 short string)"}, stdAssume...),
		Faults:      []string{"short_reads", "one_byte_reads", "split_writes", "blocked_reads"},
		Probes:      []string{"responses_matched", "responses_without_request", "responses_of_other_kind", "responses_in_registration_window", "responses_named_error", "typed_packet_waits", "typed_message_waits", "packets_skipped_by_waits", "user_control_event_types_swept", "sync_deadlocks_broken"},
	},
	"C04": {
		ID: "C04", Level: "exploration",
		Phases: []phase{
			{Name: "oracle", Pkg: "checks/c04", Prepare: prepareC04,
				Quick: tierCfg{Count: 3000, Budget: 60 * time.Second},
				Thor:  tierCfg{Count: 250000, Budget: 20 * time.Minute}},
			{Name: "race", Pkg: "checks/c04", Race: true, Env: []string{"VERIF_ENGINE=race"}, Prepare: prepareC04,
				Quick: tierCfg{Count: 300, Budget: 60 * time.Second},
				Thor:  tierCfg{Count: 6000, Budget: 15 * time.Minute}},
		},
		Rule: "plan = request sequence of endpoint A (connect / createStream with distinct positive ids, up to 12) with a per-request answer mode for the peer (at once, delayed until the next request, at the end; optionally answered twice) x an optional transport write error at one of W's write calls (accepting nothing, 3 bytes or everything) x segmentation x schedule tape over the tasks W (marshal, transport write(s), bookkeeping), R (read, decode, lookup) and P (read, respond); the transport deposits W's bytes and then yields, so P and R can run inside W's write call. Phase 'oracle': channel gates, direct oracle on the ordered event log + porcupine cross-check. Phase 'race': the same plans on raw-futex gates in a -race build; any race report with both accesses in go-oryx-lib is a violation. Non-trivial = at least one request. Distinct = distinct plan bodies.",
		Components: map[string]string{"rtmp.Protocol A (WritePacket, ReadMessage, DecodeMessage)": "real", "peer P": "real rtmp.Protocol driven by a responder task", "transport": "sim duplex with post-deposit yield", "scheduler": "tape-driven; channel gates (oracle) / raw futex gates invisible to the race detector (race); package rtmp is compiled from a scratch copy with go/ast-inserted preemption points at the transaction table's lock boundaries", "linearizability": "porcupine v1.3.0 against a sequential map model"},
		Assumptions: append([]string{"a request counts as handed to the transport at the scheduler step of the deposit that carries its last byte", "race engine: handshake skipped; only detector reports whose two access stacks both top out in go-oryx-lib are violations, anything else is harness trouble (exit 2)"}, stdAssume...),
		Faults:      []string{"fault_write_error", "requests_failed_by_write_fault", "short_reads", "split_writes", "blocked_reads", "responses_decoded_inside_write_call", "duplicate_responses"},
		Probes:      []string{"responses_decoded_inside_write_call", "duplicate_responses", "porcupine_histories_checked", "race_engine_runs", "task_switches"},
	},
	"C20": {
		ID: "C20", Level: "exploration",
		Phases: []phase{{Name: "clock", Pkg: "checks/c20",
			Quick: tierCfg{Count: 800, Budget: 60 * time.Second},
			Thor:  tierCfg{Count: 25000, Budget: 20 * time.Minute}}},
		Rule: "plan = history: counter change points at simulated instants (steady growth, bursts, counter stalls, jumps up to 2^62, reset to a smaller value or 0, start near 2^64), stalls of the source (Count() sleeps 1 ms..400 s of simulated time, making the sampling instants irregular: sub-window and multi-window gaps), Average() calls at arbitrary instants, meter kind (requests / bitrate), Start offset, duration 45 s..2 h of simulated time; getters are read after every sample (1 s polling of the fake clock) and all four before Start. Non-trivial = at least two sampler observations. Distinct = distinct plan bodies.",
		Components: map[string]string{"kxps.NewKrps/NewKbps, Start, sampler goroutine, getters, Close": "real (public API only)", "clock and 10 s timer": "testing/synctest bubble (go1.26.8): fake clock", "counter source": "scripted seam (stub) with stalls"},
		Assumptions: append([]string{"a changed window rate must equal increase/W against a previous sample of that window that is at least W old (existential over the candidates); with gap-free 10 s sampling the window must fire exactly when due", "an observation of 0 may be ignored by the meter (rates may stay)", "increase is the 64-bit modular difference interpreted as signed (wrap-around counts as growth, going backwards as 0)", "a sampler goroutine that never leaves after Close is counted (goroutines_left_blocked_at_end_of_run) but not judged: the statement does not speak about it"}, stdAssume...),
		Faults:      []string{"source_stalls_fired", "irregular_sampling_gaps"},
		Probes:      []string{"window_10s_fired", "window_30s_fired", "window_300s_fired", "average_reads_checked", "getters_refused_before_start", "sampler_observations"},
	},
	"C13": {
		ID: "C13", Level: "exploration",
		Phases: []phase{{Name: "session", Pkg: "checks/c13",
			Quick: tierCfg{Count: 500, Budget: 75 * time.Second},
			Thor:  tierCfg{Count: 60000, Budget: 25 * time.Minute}}},
		Rule: "plan = per-endpoint message sequence (text/binary, sizes around 0, 125/126, 65535/65536, write-buffer size and multiples, up to 3 MiB rationed) x write API per message (WriteMessage, NextWriter+Write with a tape-chosen partition, io.WriteString, io.Copy/ReadFrom, WritePreparedMessage, WriteJSON) x read API (ReadMessage, NextReader with partial reads, ReadJSON) x role x compression (negotiated or not, offered by one side only, level -2..9, toggled per message) x read/write buffer sizes {0 (server reuses the hijacked bufio buffers),1,2,125,126,256,512,1000,4096,65536} x subprotocol lists x transport segmentation x schedule over 4 tasks. Session through the real Dial/Upgrade handshake. Non-trivial = at least one message. Distinct = distinct plan bodies.",
		Components: map[string]string{"websocket.Dialer.Dial, Upgrader.Upgrade, Conn write/read APIs, compression, prepared messages, JSON": "real", "transport": "sim duplex via Dialer.NetDial and a fake http.Hijacker", "wire oracle": "reference RFC 6455/7692 frame parser, validator and inflater (ref/ws.go, stub written from the RFCs)", "handshake oracle": "independent recomputation of Sec-WebSocket-Accept, extension/subprotocol offer check"},
		Assumptions: append([]string{"minimal length encoding is required of the writer (RFC 6455 5.2)", "mask keys and the challenge key come from process-global random sources; the event log records parsed frames, never masked bytes, so they cannot influence a verdict or a replay"}, stdAssume...),
		Faults:      []string{"short_reads", "one_byte_reads", "split_writes"},
		Probes:      []string{"sessions_with_deflate", "messages_compressed", "messages_fragmented", "frames_16bit_length", "frames_64bit_length", "messages"},
	},
	"C14": {
		ID: "C14", Level: "exploration",
		Phases: []phase{{Name: "reader", Pkg: "checks/c14",
			Quick: tierCfg{Count: 8000, Budget: 60 * time.Second},
			Thor:  tierCfg{Count: 250000, Budget: 20 * time.Minute}}},
		Rule: "plan = frame sequence emitted by the stub peer: either up to 4 uniformly random frames over the abstract alphabet (opcode {0,1,2,8,9,10,3,11,15} x FIN x RSV x right/wrong mask x length {exact; declared 2^31, 2^63-1, 2^63, 2^64-1, 2^64-len} x close code/reason class), or a valid conversation (fragmented messages, pings/pongs in between, close) with one injected oddity; x role (client/server under test) x read limit drawn relative to frame/message sizes x cut at an arbitrary byte offset x read segmentation down to 1 byte x read buffer size x read API. Non-trivial = every plan (each has at least one frame). Distinct = distinct plan bodies.",
		Components: map[string]string{"websocket.Conn reader (advanceFrame, NextReader, ReadMessage, default ping/close handlers, SetReadLimit)": "real, established through the real Dial/Upgrade handshake", "peer": "reference frame encoder (ref/ws.go, stub)", "model": "conformant RFC 6455 receiver as a small state machine with unbounded-integer length accounting (stub)", "transport": "sim duplex: segmentation, cut", "clock": "testing/synctest bubble: the handlers' WriteControl deadlines (now+1s) read the fake clock"},
		Assumptions: append([]string{"not demanded (unspecified by the statement): the status code sent on a limit breach, a 1-byte Close body, close codes 1012-1014, text payload UTF-8 validation, non-minimal length encodings (not generated)", "a violation in a frame whose header is cut short may end in the protocol error or in an EOF error"}, stdAssume...),
		Faults:      []string{"fault_cut", "short_reads", "one_byte_reads"},
		Probes:      []string{"expected_terminal_proto", "expected_terminal_close", "expected_terminal_limit", "expected_terminal_eof", "close_1002_checked", "limit_breaches_checked", "pongs_checked", "runs_with_read_limit"},
	},
	"C15": {
		ID: "C15", Level: "exploration",
		Phases: []phase{
			{Name: "oracle", Pkg: "checks/c15",
				Quick: tierCfg{Count: 900, Budget: 75 * time.Second},
				Thor:  tierCfg{Count: 20000, Budget: 25 * time.Minute}},
			{Name: "race", Pkg: "checks/c15", Race: true, Env: []string{"VERIF_ENGINE=race"},
				Quick: tierCfg{Count: 150, Budget: 60 * time.Second},
				Thor:  tierCfg{Count: 3000, Budget: 15 * time.Minute}},
		},
		Rule: "plan = one endpoint (client or server role, write buffer 1..4096) with tasks: D writes 1..6 data messages (WriteMessage / NextWriter with tape-chosen partition / prepared message; sizes around the write buffer incl. the two-buffer 'extra' frame path on the server), up to 4 control tasks each sending 1..4 ping/pong/close frames with zero, one-hour or tight (1 ms..3 s) deadlines, an optional closer calling Close(), a reader R fed by a stub peer with pings/data/pongs/close, x schedule tape (every transport Write, SetWriteDeadline and Close is a yield point, also between the two buffers of one frame) x stall faults (the scheduler advances the fake clock by 2 ms..5 s at a chosen step while a lock holder may be parked). Phase 'race': same task set on raw-futex gates at API-call boundaries in a -race build. Non-trivial = every plan (at least D and the handshake run). Distinct = distinct plan bodies.",
		Components: map[string]string{"websocket.Conn (WriteMessage, NextWriter, WritePreparedMessage, WriteControl, Close, ReadMessage + default handlers)": "real, established through the real handshake", "peer": "stub feeding reference-encoded frames; the endpoint's wire bytes are consumed by the reference parser in transport-event order", "clock": "testing/synctest bubble (oracle phase); real clock with non-expiring deadlines (race phase)", "scheduler": "tape-driven; lock-blocked tasks detected by synctest.Wait"},
		Assumptions: append([]string{"the harness respects the documented contract: one data writer, one reader, any number of control writers/closers", "a control write whose own deadline had passed when it returned may report the timeout error even after a Close frame was sent", "race phase: tasks park only where no library lock is held"}, stdAssume...),
		Faults:      []string{"fault_stall", "control_writes_timed_out"},
		Probes:      []string{"frames_spanning_two_transport_writes", "runs_with_close_frame", "calls_after_close_frame", "control_writes_timed_out", "data_messages_on_wire", "race_engine_runs", "task_switches"},
	},
	"C18": {
		ID: "C18", Level: "exploration",
		Phases: []phase{{Name: "race", Pkg: "checks/c18", Race: true, Prepare: prepareC18,
			Quick: tierCfg{Count: 400, Budget: 60 * time.Second},
			Thor:  tierCfg{Count: 8000, Budget: 20 * time.Minute}}},
		Rule: "plan = 2..8 tasks, each with 1..6 ops from {WithContext, AliasContext (source nil / own latest context / context without id), I/T/W/E and If/Tf/Wf/Ef with generated messages and context kinds nil / object with Cid() / own latest library-made context / context.Context without id} x schedule tape over the preemption points the go/ast rewrite inserted into a scratch copy of package logger (before every statement mentioning a package-level variable; x += 1 split into load/yield/store) plus one yield before every op. One engine: raw-futex gates in a -race build, so a run yields the oracle verdict and the detector's verdict. Non-trivial = more than 2 task switches. Distinct = distinct plan bodies.",
		Components: map[string]string{"logger (WithContext, AliasContext, I/T/W/E, If/Tf/Wf/Ef, Switch)": "real code, compiled from a scratch copy of /repo's working tree with inserted simyield.Y() calls (no change to /repo)", "writer": "sim writer installed with logger.Switch (one event per Write)", "scheduler": "tape-driven, raw futex gates invisible to the race detector"},
		Assumptions: append([]string{"context ids are learned after the run by logging one probe line per context from the main goroutine (the context key is unexported)", "an Info-level call may emit nothing (the library routes that level to a discard writer)", "for a context.Context without an id the prefix is not specified by the statement; only line wholeness and the message are checked", "messages contain no newline"}, stdAssume...),
		Faults:      []string{"preemption_yields", "task_switches"},
		Probes:      []string{"contexts_created", "log_lines_checked", "runs_with_inserted_preemption_points", "preemption_yields"},
	},
}
