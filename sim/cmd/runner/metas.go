package main

import "time"

var stdAssume = []string{
	"every run is a pure function of its plan (replay file); plans come from one PCG generator seeded by VERIF_SEED",
	"reference codecs/models written from the specifications are trusted (cross-validated against the library on fault-free runs)",
	"sampling, not enumeration: a clean batch is evidence, not proof",
}

var metas = map[string]*checkMeta{
	"C17": {
		ID: "C17", Level: "exploration",
		Phases: []phase{{Name: "seg", Pkg: "checks/c17",
			Quick: tierCfg{Count: 6000, Budget: 60 * time.Second},
			Thor:  tierCfg{Count: 400000, Budget: 15 * time.Minute}}},
		Rule: "plan = generated JSON document (value tree over a quote/backslash/slash/star/apostrophe/newline-rich string alphabet, decorated with // and /* */ comments at token boundaries, optional >64KiB pad, EOF placement) x read segmentation (whole, 1 byte, tape-random, small, chunky) x forced read boundary inside a two-byte marker or escape pair. Non-trivial = the document has at least one comment or at least one read returned fewer bytes than available. Distinct = distinct plan bodies.",
		Components: map[string]string{"json.Unmarshal/NewJsonPlusReader": "real", "input reader (segmentation, EOF)": "sim reader (simnet.Pipe)", "oracle": "encoding/json on the undecorated text (stdlib)"},
		Assumptions: stdAssume,
		Faults:      []string{"short_reads", "one_byte_reads", "forced_split_inside_marker"},
		Probes:      []string{"docs_with_comments", "docs_with_escaped_quote", "docs_over_64KiB", "forced_split_inside_marker", "passthrough_checked"},
	},
}
