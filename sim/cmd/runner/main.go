// runner builds one check's test binary from /repo's current tree, runs the
// seeded search across worker processes, shrinks and replay-verifies any
// violation, prints VIOLATION / KNOWN-FINDING lines, writes the evidence file
// and owns the exit code: 0 held, 1 violation, 2 build/watchdog/harness trouble.
package main

import (
	"bytes"
	"encoding/binary"
	"encoding/json"
	"fmt"
	"os"
	"os/exec"
	"path/filepath"
	"runtime"
	"sort"
	"strconv"
	"strings"
	"sync"
	"time"
)

const goBin = "/opt/veriftools/go1.26.8/bin/go"

// verif is the root of the verification tree: /verif for the registered
// commands, a snapshot directory for background runs started with `vp run`.
// repoPath is the tree under test: /repo for the registered commands; a scratch
// worktree when VERIF_REPO is set (evaluation of seeded changes without
// touching /repo).
var repoPath = func() string {
	if r := os.Getenv("VERIF_REPO"); r != "" {
		return r
	}
	return "/repo"
}()

// altModfile writes a go.mod/go.sum pair whose replace directive points at
// repoPath and returns the -modfile argument ("" when repoPath is /repo).
func altModfile(dir string) (string, error) {
	if repoPath == "/repo" {
		return "", nil
	}
	gm, err := os.ReadFile(filepath.Join(verif, "sim", "go.mod"))
	if err != nil {
		return "", err
	}
	mod := strings.Replace(string(gm), "=> /repo", "=> "+repoPath, 1)
	mf := filepath.Join(dir, "alt.go.mod")
	if err := os.WriteFile(mf, []byte(mod), 0o644); err != nil {
		return "", err
	}
	if gs, err := os.ReadFile(filepath.Join(verif, "sim", "go.sum")); err == nil {
		os.WriteFile(filepath.Join(dir, "alt.go.sum"), gs, 0o644)
	}
	return "-modfile=" + mf, nil
}

var verif = func() string {
	if r := os.Getenv("VERIF_ROOT"); r != "" {
		return r
	}
	return "/verif"
}()

type tierCfg struct {
	Count   int64 // plans per worker
	Workers int
	Budget  time.Duration // wall budget per worker (effort bound only)
}

type phase struct {
	Name    string
	Pkg     string
	Race    bool
	Env     []string
	Quick   tierCfg
	Thor    tierCfg
	Prepare func(work string) (extraArgs []string, env []string, cleanup func(), err error)
}

type checkMeta struct {
	ID          string
	Level       string
	Phases      []phase
	Rule        string
	Components  map[string]string
	Assumptions []string
	Faults      []string // stat keys that count injected faults
	Probes      []string // stat keys that are rare-branch probes (warn at zero in thorough)
}

type finding struct {
	Property string `json:"property"`
	Key      string `json:"key"`
	Status   string `json:"status"` // open | fixed
	Commit   string `json:"commit,omitempty"`
	Probe    string `json:"probe,omitempty"`
	What     string `json:"what"`
}

type workerOut struct {
	Worker     int              `json:"worker"`
	Runs       int64            `json:"runs"`
	Nontrivial int64            `json:"nontrivial"`
	Invalid    int64            `json:"invalid"`
	SimMs      int64            `json:"sim_ms"`
	Stats      map[string]int64 `json:"stats"`
	Samples    []json.RawMessage `json:"samples"`
	FirstSeed  uint64           `json:"first_seed"`
	LastSeed   uint64           `json:"last_seed"`
	WallMs     int64            `json:"wall_ms"`
	Violations []struct {
		Key    string `json:"key"`
		Detail string `json:"detail"`
		Plan   string `json:"plan"`
		Seed   uint64 `json:"seed"`
	} `json:"violations"`
	Harness string `json:"harness,omitempty"`
}

func env() []string {
	e := os.Environ()
	e = append(e, "GOFLAGS=-mod=mod", "GOPROXY=off", "GOSUMDB=off", "GOTOOLCHAIN=local", "CGO_ENABLED=1", "VERIF_LIBPATH="+repoPath+"/")
	return e
}

func die2(format string, a ...any) {
	fmt.Printf("HARNESS: "+format+"\n", a...)
	os.Exit(2)
}

func readSet(glob string) map[uint64]struct{} {
	set := map[uint64]struct{}{}
	m, _ := filepath.Glob(glob)
	for _, f := range m {
		b, err := os.ReadFile(f)
		if err != nil {
			continue
		}
		for i := 0; i+8 <= len(b); i += 8 {
			set[binary.LittleEndian.Uint64(b[i:])] = struct{}{}
		}
	}
	return set
}

func runBin(bin string, extra []string, timeout time.Duration) (string, error) {
	cmd := exec.Command(bin, "-test.run", "^TestCheck$", "-test.count", "1", "-test.timeout", "0", "-test.cpu", "1")
	cmd.Env = append(env(), extra...)
	done := make(chan struct{})
	var out []byte
	var err error
	go func() { out, err = cmd.CombinedOutput(); close(done) }()
	select {
	case <-done:
	case <-time.After(timeout):
		if cmd.Process != nil {
			cmd.Process.Kill()
		}
		<-done
		return string(out), fmt.Errorf("timeout after %v", timeout)
	}
	return string(out), err
}

func main() {
	if len(os.Args) < 3 {
		fmt.Println("usage: runner <property-id> <quick|thorough> | runner replay <property-id> <plan.json>")
		os.Exit(2)
	}
	if os.Args[1] == "replay" {
		replayCmd(os.Args[2], os.Args[3])
		return
	}
	id, tier := os.Args[1], os.Args[2]
	if t := os.Getenv("VERIF_TIER"); t == "quick" || t == "thorough" {
		tier = t
	}
	meta, ok := metas[id]
	if !ok {
		die2("unknown property %s", id)
	}
	seed := uint64(20261002)
	if s := os.Getenv("VERIF_SEED"); s != "" {
		if v, err := strconv.ParseUint(s, 10, 64); err == nil {
			seed = v
		} else if v, err := strconv.ParseInt(s, 10, 64); err == nil {
			seed = uint64(v)
		}
	}
	start := time.Now()
	work := filepath.Join(verif, ".work", id+"-"+tier)
	evidenceDir := filepath.Join(verif, "evidence")
	replayDir := filepath.Join(verif, "replays", id)
	if repoPath != "/repo" {
		// evaluating a scratch tree: keep /verif's evidence and replays untouched
		work = filepath.Join(verif, ".work", "alt-"+id+"-"+tier+"-"+safeName(repoPath))
		evidenceDir = filepath.Join(work, "evidence")
		replayDir = filepath.Join(work, "replays")
	}
	os.RemoveAll(work)
	os.MkdirAll(work, 0o755)
	os.MkdirAll(filepath.Join(verif, ".build"), 0o755)
	os.MkdirAll(evidenceDir, 0o755)
	os.MkdirAll(replayDir, 0o755)
	fmt.Printf("check %s tier=%s seed=%d repo=%s\n", id, tier, seed, repoPath)

	// known findings
	var kf struct {
		Findings []finding `json:"findings"`
	}
	if b, err := os.ReadFile(filepath.Join(verif, "known_findings.json")); err == nil {
		if err := json.Unmarshal(b, &kf); err != nil {
			die2("known_findings.json: %v", err)
		}
	}
	open := map[string]finding{}
	for _, f := range kf.Findings {
		if f.Property == id && f.Status == "open" {
			open[f.Key] = f
		}
	}
	skip := make([]string, 0)
	for k := range open {
		skip = append(skip, k)
	}
	sort.Strings(skip)

	total := struct {
		runs, nontrivial, invalid, simMs int64
		stats                            map[string]int64
		samples                          []json.RawMessage
		wallWorkers                      int64
	}{stats: map[string]int64{}}
	violations := 0
	searchWall := 0.0
	harness := ""
	knownHit := map[string]bool{}
	phaseInfo := []map[string]any{}

	for pi, ph := range meta.Phases {
		tc := ph.Quick
		if tier == "thorough" {
			tc = ph.Thor
		}
		if tc.Workers <= 0 {
			tc.Workers = runtime.NumCPU()
		}
		pwork := filepath.Join(work, ph.Name)
		os.MkdirAll(pwork, 0o755)
		replayEnv = ph.Env
		bin := filepath.Join(verif, ".build", id+"-"+ph.Name+".test")
		if repoPath != "/repo" {
			bin = filepath.Join(pwork, id+"-"+ph.Name+".test") // scratch-tree evaluations may run side by side
		}
		args := []string{"test", "-c", "-o", bin}
		if ph.Race {
			args = append(args, "-race")
		}
		var penv []string
		var cleanup func()
		if ph.Prepare != nil {
			extra, e2, cl, err := ph.Prepare(pwork)
			if err != nil {
				die2("prepare %s: %v", ph.Name, err)
			}
			args = append(args, extra...)
			penv = e2
			cleanup = cl
		} else if mf, err := altModfile(pwork); err != nil {
			die2("modfile: %v", err)
		} else if mf != "" {
			args = append(args, mf)
		}
		args = append(args, "./"+ph.Pkg)
		bstart := time.Now()
		cmd := exec.Command(goBin, args...)
		cmd.Dir = filepath.Join(verif, "sim")
		cmd.Env = append(env(), penv...)
		if out, err := cmd.CombinedOutput(); err != nil {
			if cleanup != nil {
				cleanup()
			}
			die2("build of %s failed: %v\n%s", ph.Pkg, err, out)
		}
		if cleanup != nil {
			cleanup()
		}
		fmt.Printf("phase %s: built in %.1fs; %d workers x %d plans\n", ph.Name, time.Since(bstart).Seconds(), tc.Workers, tc.Count)

		sstart := time.Now()
		var wg sync.WaitGroup
		outs := make([]string, tc.Workers)
		errs := make([]error, tc.Workers)
		for w := 0; w < tc.Workers; w++ {
			wg.Add(1)
			go func(w int) {
				defer wg.Done()
				e := []string{
					"VERIF_MODE=search", "VERIF_TIER=" + tier, "VERIF_OUT=" + pwork,
					fmt.Sprintf("VERIF_WORKER=%d", w),
					fmt.Sprintf("VERIF_SEED0=%d", seed*1000003+uint64(pi)*7919+uint64(w)),
					fmt.Sprintf("VERIF_STRIDE=%d", tc.Workers),
					fmt.Sprintf("VERIF_COUNT=%d", tc.Count),
					fmt.Sprintf("VERIF_BUDGET_MS=%d", tc.Budget.Milliseconds()),
					"VERIF_SKIPKEYS=" + strings.Join(skip, ";"),
				}
				e = append(e, ph.Env...)
				if ph.Race {
					e = append(e, "GORACE=halt_on_error=0 log_path="+filepath.Join(pwork, fmt.Sprintf("race-w%d", w)))
				}
				outs[w], errs[w] = runBin(bin, e, tc.Budget+10*time.Minute)
			}(w)
		}
		wg.Wait()
		searchWall += time.Since(sstart).Seconds()

		type viol struct {
			key, detail, plan string
			seed              uint64
		}
		byKey := map[string]viol{}
		cands := map[string][]viol{} // every worker's first plan per class: fall-backs when one does not replay
		var pruns int64
		for w := 0; w < tc.Workers; w++ {
			b, err := os.ReadFile(filepath.Join(pwork, fmt.Sprintf("worker-%d.json", w)))
			if err != nil {
				harness = fmt.Sprintf("worker %d of phase %s produced no result (err=%v)\n%s", w, ph.Name, errs[w], tail(outs[w], 40))
				continue
			}
			var wo workerOut
			if err := json.Unmarshal(b, &wo); err != nil {
				harness = "bad worker output: " + err.Error()
				continue
			}
			pruns += wo.Runs
			total.runs += wo.Runs
			total.nontrivial += wo.Nontrivial
			total.invalid += wo.Invalid
			total.simMs += wo.SimMs
			if wo.WallMs > total.wallWorkers {
				total.wallWorkers = wo.WallMs
			}
			for k, v := range wo.Stats {
				if strings.HasPrefix(k, "known_finding_hits:") {
					knownHit[strings.TrimPrefix(k, "known_finding_hits:")] = true
				}
				total.stats[k] += v
			}
			if len(total.samples) < 3 {
				total.samples = append(total.samples, wo.Samples...)
			}
			if wo.Harness != "" {
				harness = wo.Harness
			}
			for _, v := range wo.Violations {
				if strings.HasPrefix(v.Key, "harness/") {
					harness = v.Key + ": " + v.Detail
					continue
				}
				if old, ok := byKey[v.Key]; !ok || v.Seed < old.seed {
					byKey[v.Key] = viol{v.Key, v.Detail, v.Plan, v.Seed}
				}
				cands[v.Key] = append(cands[v.Key], viol{v.Key, v.Detail, v.Plan, v.Seed})
			}
		}
		phaseInfo = append(phaseInfo, map[string]any{"phase": ph.Name, "race_detector": ph.Race, "runs": pruns, "workers": tc.Workers})

		// probes (fixed plans: known findings and regression cases)
		pres := filepath.Join(pwork, "probes.json")
		if out, err := runBin(bin, append([]string{"VERIF_MODE=probes", "VERIF_TIER=" + tier, "VERIF_OUT=" + pwork, "VERIF_RESULT=" + pres, "GORACE=halt_on_error=0 log_path=" + filepath.Join(pwork, "race-probes")}, ph.Env...), 10*time.Minute); err != nil && !fileExists(pres) {
			harness = "probes failed: " + err.Error() + "\n" + tail(out, 30)
		} else if b, err := os.ReadFile(pres); err == nil {
			var pr0 map[string]struct {
				Key        string `json:"key"`
				Detail     string `json:"detail"`
				RaceKey    string `json:"race_key"`
				RaceDetail string `json:"race_detail"`
			}
			json.Unmarshal(b, &pr0)
			type pres struct{ Key, Detail string }
			pr := map[string]pres{}
			for n, v := range pr0 {
				pr[n] = pres{v.Key, v.Detail}
				if v.RaceKey != "" {
					pr[n+"+race"] = pres{v.RaceKey, v.RaceDetail}
				}
			}
			names := make([]string, 0, len(pr))
			for n := range pr {
				names = append(names, n)
			}
			sort.Strings(names)
			for _, n := range names {
				r := pr[n]
				total.stats["probe_plans"]++
				if r.Key == "" {
					continue
				}
				if strings.HasPrefix(r.Key, "harness/") {
					harness = "probe " + n + ": " + r.Key + ": " + r.Detail
					continue
				}
				if _, ok := open[r.Key]; ok {
					knownHit[r.Key] = true
					continue
				}
				if _, ok := byKey[r.Key]; !ok {
					byKey[r.Key] = viol{r.Key, r.Detail, filepath.Join(pwork, "probe-"+strings.TrimSuffix(n, "+race")+".json"), 0}
				}
			}
		}

		keys := make([]string, 0, len(byKey))
		for k := range byKey {
			keys = append(keys, k)
		}
		sort.Strings(keys)
		for i, k := range keys {
			v := byKey[k]
			if i >= 3 {
				fmt.Printf("further violation class not minimised: %s (seed %d, plan %s)\n", k, v.seed, v.plan)
				continue
			}
			// the plan with the smallest seed first, then other workers' plans of
			// the same class (a plan found in a worker that had run other plans
			// before may not violate in a fresh process when a defect leaves state
			// in process-wide library objects such as pools)
			list := []viol{v}
			cs := cands[k]
			sort.Slice(cs, func(a, b int) bool { return cs[a].seed < cs[b].seed })
			for _, c := range cs {
				if c.plan != v.plan && len(list) < 4 {
					list = append(list, c)
				}
			}
			confirmed := false
			var lastTrouble string
			for ci, v := range list {
				minPath := filepath.Join(pwork, fmt.Sprintf("min-%d-%d.json", i, ci))
				e := []string{"VERIF_MODE=shrink", "VERIF_TIER=" + tier, "VERIF_PLAN=" + v.plan, "VERIF_KEY=" + k, "VERIF_RESULT=" + minPath, "VERIF_OUT=" + pwork, "VERIF_SHRINK_MS=90000"}
				e = append(e, ph.Env...)
				if ph.Race {
					e = append(e, "VERIF_SHRINK_RUNS=150", "GORACE=halt_on_error=0 log_path="+filepath.Join(pwork, "race-shrink"))
				}
				out, err := runBin(bin, e, 15*time.Minute)
				if err != nil && !fileExists(minPath) {
					fmt.Printf("shrink failed (%v); reporting the unminimised plan\n%s\n", err, tail(out, 10))
					minPath = v.plan
				} else {
					fmt.Print(tail(out, 3))
				}
				// replay twice in fresh processes: same key, same event-log hash
				var rk [2]string
				var rh [2]string
				for j := 0; j < 2; j++ {
					rk[j], rh[j], _ = replayWant(bin, ph.Race, minPath, pwork, j, k)
				}
				if rk[0] != k || rk[1] != k || rh[0] != rh[1] {
					// fall back to the unminimised plan before giving up
					if minPath != v.plan {
						minPath = v.plan
						for j := 0; j < 2; j++ {
							rk[j], rh[j], _ = replayWant(bin, ph.Race, minPath, pwork, j, k)
						}
					}
				}
				rkey, detail := k, v.detail
				if rk[0] != k || rk[1] != k || rh[0] != rh[1] {
					// Two fresh replays that agree with each other on a violation of
					// ANOTHER class are an exactly replaying violation of that class.
					_, isOpen := open[rk[0]]
					if rk[0] != "" && rk[0] == rk[1] && rh[0] == rh[1] && !strings.HasPrefix(rk[0], "harness/") && !isOpen {
						fmt.Printf("note: found as %s in the search worker; replays in fresh processes as %s\n", k, rk[0])
						rkey = rk[0]
						if b, err := os.ReadFile(minPath); err == nil {
							var m map[string]interface{}
							dec := json.NewDecoder(bytes.NewReader(b))
							dec.UseNumber() // 64-bit seeds must survive the round trip
							if dec.Decode(&m) == nil {
								_, _, det := replayWant(bin, ph.Race, minPath, pwork, 2, rkey)
								m["violation_key"], m["event_log_hash"], m["violation_detail"] = rkey, rh[0], det
								detail = det
								if nb, err := json.MarshalIndent(m, "", " "); err == nil {
									minPath = filepath.Join(pwork, fmt.Sprintf("min-%d-%d-rekeyed.json", i, ci))
									os.WriteFile(minPath, nb, 0o644)
								}
							}
						}
					} else {
						lastTrouble = fmt.Sprintf("violation %s (seed %d) does not replay: keys %q %q hashes %s %s", k, v.seed, rk[0], rk[1], rh[0], rh[1])
						fmt.Printf("note: %s\n", lastTrouble)
						continue
					}
				}
				dst := filepath.Join(replayDir, fmt.Sprintf("%s-%d-%s-%s.json", ph.Name, v.seed, rh[0], safeName(rkey)))
				b, _ := os.ReadFile(minPath)
				os.WriteFile(dst, b, 0o644)
				violations++
				fmt.Printf("violation key=%s seed=%d\n%s\n", rkey, v.seed, indent(clip(detail, 1500)))
				fmt.Printf("VIOLATION property=%s replay=%s\n", id, dst)
				confirmed = true
				break
			}
			if !confirmed && lastTrouble != "" {
				harness = lastTrouble
			}
		}
	}

	// known findings still present?
	for _, k := range skip {
		if knownHit[k] {
			fmt.Printf("KNOWN-FINDING: property=%s %s (key %s)\n", id, open[k].What, k)
		} else {
			fmt.Printf("note: open known finding %s was not reproduced by this run\n", k)
		}
	}

	wall := time.Since(start).Seconds()
	plans := readSet(filepath.Join(work, "*", "worker-*.plans"))
	inters := readSet(filepath.Join(work, "*", "worker-*.inters"))
	states := readSet(filepath.Join(work, "*", "worker-*.states"))
	faults := map[string]int64{}
	for _, k := range meta.Faults {
		faults[k] = total.stats[k]
	}
	probes := map[string]int64{}
	for _, k := range meta.Probes {
		probes[k] = total.stats[k]
		if total.stats[k] == 0 && tier == "thorough" {
			fmt.Printf("warning: probe %s stayed at zero\n", k)
		}
	}
	var samples []any
	for _, s := range total.samples {
		var v any
		json.Unmarshal(s, &v)
		samples = append(samples, v)
		if len(samples) >= 3 {
			break
		}
	}
	if len(samples) == 0 {
		samples = append(samples, "no sample small enough to print")
	}
	runsPerHour := 0.0
	if searchWall > 0 {
		runsPerHour = float64(total.runs) / searchWall * 3600
	}
	ev := map[string]any{
		"property_id": id,
		"tier":        tier,
		"seed":        seed,
		"level":       meta.Level,
		"wall_s":      wall,
		"violations":  violations,
		"assumptions": meta.Assumptions,
		"coverage": map[string]any{
			"evaluations":              total.runs,
			"distinct_nontrivial":      len(plans),
			"rule":                     meta.Rule,
			"samples":                  samples,
			"exhaustive":               false,
			"simulated_runs_per_hour":  int64(runsPerHour),
			"seeds_per_hour":           int64(runsPerHour),
			"simulated_time_s":         float64(total.simMs) / 1000,
			"faults_fired":             faults,
			"rare_branch_probes":       probes,
			"distinct_interleavings":   len(inters),
			"interleaving_measure":     "distinct hashes of the (task, event-kind) sequence of a run",
			"distinct_states":          len(states),
			"all_counters":             total.stats,
			"components":               meta.Components,
			"phases":                   phaseInfo,
			"invalid_plans":            total.invalid,
			"known_findings_open":      skip,
			"harness_trouble":          harness,
			"nontrivial_evaluations":   total.nontrivial,
			"first_seed_formula":       "worker w of phase p starts at VERIF_SEED*1000003 + p*7919 + w and strides by the worker count",
		},
	}
	b, _ := json.MarshalIndent(ev, "", " ")
	os.WriteFile(filepath.Join(evidenceDir, id+".json"), append(b, '\n'), 0o644)
	fmt.Printf("runs=%d nontrivial-distinct=%d interleavings=%d states=%d sim_time=%.0fs wall=%.1fs (%.0f runs/h)\n", total.runs, len(plans), len(inters), len(states), float64(total.simMs)/1000, wall, runsPerHour)
	if n := total.stats["plans_over_step_limit"]; n > 0 {
		fmt.Printf("warning: %d of %d plans exceeded the scheduler step bound and were skipped\n", n, total.runs)
		if n*50 > total.runs && harness == "" {
			harness = fmt.Sprintf("%d of %d plans exceeded the scheduler step bound", n, total.runs)
		}
	}
	if harness != "" {
		fmt.Printf("HARNESS: %s\n", harness)
		if violations == 0 {
			os.Exit(2)
		}
	}
	if violations > 0 {
		os.Exit(1)
	}
	fmt.Printf("OK property=%s held on everything explored\n", id)
}

var replayEnv []string

// replayOnce runs a plan in a fresh process. want is the violation class being
// verified: the run counts as showing it whether it comes from the oracle or
// from the race detector.
func replayOnce(bin string, race bool, plan, dir string, j int) (key, hash, detail string) {
	return replayWant(bin, race, plan, dir, j, "")
}

func replayWant(bin string, race bool, plan, dir string, j int, want string) (key, hash, detail string) {
	rf := filepath.Join(dir, fmt.Sprintf("replay-%d-%d.json", time.Now().UnixNano(), j))
	defer os.Remove(rf)
	e := append([]string{"VERIF_MODE=replay", "VERIF_PLAN=" + plan, "VERIF_RESULT=" + rf}, replayEnv...)
	if race {
		lp := filepath.Join(dir, fmt.Sprintf("race-replay-%d", time.Now().UnixNano()))
		e = append(e, "GORACE=halt_on_error=0 log_path="+lp)
		defer func() {
			m, _ := filepath.Glob(lp + ".*")
			for _, f := range m {
				os.Remove(f)
			}
		}()
	}
	out, err := runBin(bin, e, 10*time.Minute)
	b, rerr := os.ReadFile(rf)
	if rerr != nil {
		return "harness/no-replay-result", "", fmt.Sprintf("%v\n%s", err, tail(out, 20))
	}
	var r struct {
		Key        string `json:"key"`
		Hash       string `json:"hash"`
		Detail     string `json:"detail"`
		RaceKey    string `json:"race_key"`
		RaceDetail string `json:"race_detail"`
	}
	json.Unmarshal(b, &r)
	if want != "" && r.RaceKey == want {
		return r.RaceKey, r.Hash, r.RaceDetail
	}
	if r.Key == "" && r.RaceKey != "" {
		return r.RaceKey, r.Hash, r.RaceDetail
	}
	return r.Key, r.Hash, r.Detail
}

// replayCmd: runner replay <id> <plan>: exit 1 + VIOLATION line if the plan
// still violates, 0 if it no longer does.
func replayCmd(id, plan string) {
	meta, ok := metas[id]
	if !ok {
		die2("unknown property %s", id)
	}
	abs, _ := filepath.Abs(plan)
	name := filepath.Base(plan)
	ph := meta.Phases[0]
	for _, p := range meta.Phases {
		if strings.HasPrefix(name, p.Name+"-") {
			ph = p
		}
	}
	if pl, err := os.ReadFile(abs); err == nil {
		// a replay file of a race violation belongs to the race phase
		var hdr struct {
			Key string `json:"violation_key"`
		}
		json.Unmarshal(pl, &hdr)
		if strings.HasPrefix(hdr.Key, "race:") {
			for _, p := range meta.Phases {
				if p.Race {
					ph = p
				}
			}
		}
	}
	work := filepath.Join(verif, ".work", id+"-replay")
	os.RemoveAll(work)
	os.MkdirAll(work, 0o755)
	os.MkdirAll(filepath.Join(verif, ".build"), 0o755)
	bin := filepath.Join(verif, ".build", id+"-"+ph.Name+".test")
	args := []string{"test", "-c", "-o", bin}
	if ph.Race {
		args = append(args, "-race")
	}
	var penv []string
	if ph.Prepare != nil {
		extra, e2, cl, err := ph.Prepare(work)
		if err != nil {
			die2("prepare: %v", err)
		}
		if cl != nil {
			defer cl()
		}
		args = append(args, extra...)
		penv = e2
	} else if mf, err := altModfile(work); err != nil {
		die2("modfile: %v", err)
	} else if mf != "" {
		args = append(args, mf)
	}
	args = append(args, "./"+ph.Pkg)
	cmd := exec.Command(goBin, args...)
	cmd.Dir = filepath.Join(verif, "sim")
	cmd.Env = append(env(), penv...)
	if out, err := cmd.CombinedOutput(); err != nil {
		die2("build failed: %v\n%s", err, out)
	}
	replayEnv = ph.Env
	k, h, d := replayOnce(bin, ph.Race, abs, work, 0)
	fmt.Printf("replay key=%q hash=%s\n%s\n", k, h, indent(clip(d, 3000)))
	if strings.HasPrefix(k, "harness/") {
		os.Exit(2)
	}
	if k != "" {
		fmt.Printf("VIOLATION property=%s replay=%s\n", id, abs)
		os.Exit(1)
	}
}

func safeName(k string) string {
	var b strings.Builder
	for _, r := range k {
		switch {
		case r >= 'a' && r <= 'z', r >= 'A' && r <= 'Z', r >= '0' && r <= '9', r == '-', r == '.':
			b.WriteRune(r)
		default:
			b.WriteByte('_')
		}
	}
	s := b.String()
	if len(s) > 60 {
		s = s[:60]
	}
	return s
}

func fileExists(p string) bool { _, err := os.Stat(p); return err == nil }

func tail(s string, n int) string {
	l := strings.Split(strings.TrimRight(s, "\n"), "\n")
	if len(l) > n {
		l = l[len(l)-n:]
	}
	return strings.Join(l, "\n") + "\n"
}

func clip(s string, n int) string {
	if len(s) > n {
		return s[:n] + "…"
	}
	return s
}

func indent(s string) string { return "    " + strings.ReplaceAll(s, "\n", "\n    ") }
