package ref

import (
	"fmt"
)

// RTMPMsg is a message as RTMP 1.0 defines it.
type RTMPMsg struct {
	Type      byte
	StreamID  uint32
	Timestamp uint32 // full 32-bit value as the specification computes it
	Payload   []byte
	CSID      uint32
}

type csState struct {
	seen    bool
	ts      uint32
	delta   uint32
	length  uint32
	typ     byte
	sid     uint32
	hasExt  bool
	partial []byte
	open    bool
}

// ChunkParser is a strict RTMP 1.0 (section 5.3) chunk-stream parser written
// from the specification. Feed appends wire bytes; it returns the messages
// completed so far, or an error at the first byte sequence a conformant sender
// cannot have produced.
type ChunkParser struct {
	ChunkSize uint32
	buf       []byte
	cs        map[uint32]*csState
	Msgs      []RTMPMsg
	Err       error
	Offset    int64 // bytes consumed
	MsgEnd    []int64
	// MaxChunkPayload is the largest chunk payload seen
	MaxChunkPayload int
	Chunks          int
}

func NewChunkParser() *ChunkParser {
	return &ChunkParser{ChunkSize: 128, cs: map[uint32]*csState{}}
}

func (p *ChunkParser) Feed(b []byte) {
	if p.Err != nil {
		return
	}
	p.buf = append(p.buf, b...)
	for p.Err == nil {
		n, err := p.one(p.buf)
		if err != nil {
			p.Err = err
			return
		}
		if n == 0 {
			return
		}
		p.buf = p.buf[n:]
		p.Offset += int64(n)
	}
}

// Pending reports bytes fed but not yet forming a whole chunk.
func (p *ChunkParser) Pending() int { return len(p.buf) }

// OpenMessages reports chunk streams with an unfinished message.
func (p *ChunkParser) OpenMessages() int {
	n := 0
	for _, s := range p.cs {
		if s.open {
			n++
		}
	}
	return n
}

func (p *ChunkParser) one(b []byte) (int, error) {
	if len(b) < 1 {
		return 0, nil
	}
	f := b[0] >> 6
	csid := uint32(b[0] & 0x3f)
	h := 1
	switch csid {
	case 0:
		if len(b) < 2 {
			return 0, nil
		}
		csid = 64 + uint32(b[1])
		h = 2
	case 1:
		if len(b) < 3 {
			return 0, nil
		}
		csid = 64 + uint32(b[1]) + 256*uint32(b[2])
		h = 3
	}
	st := p.cs[csid]
	if st == nil {
		st = &csState{}
		p.cs[csid] = st
	}
	mh := []int{11, 7, 3, 0}[f]
	if len(b) < h+mh {
		return 0, nil
	}
	m := b[h : h+mh]
	if st.open && f != 3 {
		return 0, fmt.Errorf("offset %d: chunk stream %d: type-%d header inside an unfinished message", p.Offset, csid, f)
	}
	if !st.seen && f != 0 {
		return 0, fmt.Errorf("offset %d: chunk stream %d starts with a type-%d header", p.Offset, csid, f)
	}
	ts, delta, length, typ, sid, hasExt := st.ts, st.delta, st.length, st.typ, st.sid, st.hasExt
	field := uint32(0)
	if f <= 2 {
		field = uint32(m[0])<<16 | uint32(m[1])<<8 | uint32(m[2])
		hasExt = field == 0xffffff
	}
	if f <= 1 {
		length = uint32(m[3])<<16 | uint32(m[4])<<8 | uint32(m[5])
		typ = m[6]
	}
	if f == 0 {
		sid = uint32(m[7]) | uint32(m[8])<<8 | uint32(m[9])<<16 | uint32(m[10])<<24
	}
	n := h + mh
	if hasExt {
		if len(b) < n+4 {
			return 0, nil
		}
		ext := uint32(b[n])<<24 | uint32(b[n+1])<<16 | uint32(b[n+2])<<8 | uint32(b[n+3])
		n += 4
		if f <= 2 {
			field = ext
		}
	}
	if !st.open {
		switch f {
		case 0:
			ts = field
			delta = field
		case 1, 2:
			delta = field
			ts += delta
		case 3:
			ts += delta
		}
	}
	var have uint32
	if st.open {
		have = uint32(len(st.partial))
	}
	want := length - have
	if want > p.ChunkSize {
		want = p.ChunkSize
	}
	if len(b) < n+int(want) {
		return 0, nil
	}
	// commit
	st.seen = true
	st.ts, st.delta, st.length, st.typ, st.sid, st.hasExt = ts, delta, length, typ, sid, hasExt
	if !st.open {
		st.partial = make([]byte, 0, length)
		st.open = true
	}
	st.partial = append(st.partial, b[n:n+int(want)]...)
	p.Chunks++
	if int(want) > p.MaxChunkPayload {
		p.MaxChunkPayload = int(want)
	}
	n += int(want)
	if uint32(len(st.partial)) == length {
		msg := RTMPMsg{Type: typ, StreamID: sid, Timestamp: ts, Payload: st.partial, CSID: csid}
		st.open = false
		st.partial = nil
		p.Msgs = append(p.Msgs, msg)
		p.MsgEnd = append(p.MsgEnd, p.Offset+int64(n))
		if typ == 1 && len(msg.Payload) >= 4 {
			cs := (uint32(msg.Payload[0])<<24 | uint32(msg.Payload[1])<<16 | uint32(msg.Payload[2])<<8 | uint32(msg.Payload[3])) & 0x7fffffff
			if cs == 0 {
				return 0, fmt.Errorf("offset %d: Set Chunk Size 0", p.Offset)
			}
			p.ChunkSize = cs
		}
	}
	return n, nil
}
