// Package ref holds small reference components written from the
// specifications, independent of the library: they act as peers and oracles.
package ref

import (
	"fmt"
)

// FLVTag is one tag as the FLV v1 layout defines it.
type FLVTag struct {
	Type      byte
	Timestamp uint32
	Body      []byte
}

// FLVWrite produces an FLV version 1 file (Adobe video_file_format_spec_v10,
// Annex E): 9-byte header, PreviousTagSize0, then tags each followed by its
// PreviousTagSize.
func FLVWriteHeader(hasVideo, hasAudio bool) []byte {
	var flags byte
	if hasAudio {
		flags |= 1 << 2
	}
	if hasVideo {
		flags |= 1
	}
	return []byte{'F', 'L', 'V', 1, flags, 0, 0, 0, 9, 0, 0, 0, 0}
}

func FLVWriteTag(t FLVTag) []byte {
	n := len(t.Body)
	out := make([]byte, 0, 15+n)
	out = append(out, t.Type, byte(n>>16), byte(n>>8), byte(n))
	out = append(out, byte(t.Timestamp>>16), byte(t.Timestamp>>8), byte(t.Timestamp), byte(t.Timestamp>>24))
	out = append(out, 0, 0, 0)
	out = append(out, t.Body...)
	p := uint32(11 + n)
	out = append(out, byte(p>>24), byte(p>>16), byte(p>>8), byte(p))
	return out
}

// FLVParse checks b against the layout strictly and returns what it holds.
// complete reports whether b ends exactly at a tag boundary.
func FLVParse(b []byte) (hasVideo, hasAudio bool, tags []FLVTag, err error) {
	if len(b) < 13 {
		return false, false, nil, fmt.Errorf("file shorter than header+PreviousTagSize0: %d bytes", len(b))
	}
	if b[0] != 'F' || b[1] != 'L' || b[2] != 'V' {
		return false, false, nil, fmt.Errorf("bad signature % x", b[:3])
	}
	if b[3] != 1 {
		return false, false, nil, fmt.Errorf("version %d != 1", b[3])
	}
	if b[4]&^0x05 != 0 {
		return false, false, nil, fmt.Errorf("reserved flag bits set: %#x", b[4])
	}
	hasAudio = b[4]&4 != 0
	hasVideo = b[4]&1 != 0
	if off := uint32(b[5])<<24 | uint32(b[6])<<16 | uint32(b[7])<<8 | uint32(b[8]); off != 9 {
		return hasVideo, hasAudio, nil, fmt.Errorf("data offset %d != 9", off)
	}
	if b[9]|b[10]|b[11]|b[12] != 0 {
		return hasVideo, hasAudio, nil, fmt.Errorf("PreviousTagSize0 != 0: % x", b[9:13])
	}
	p := b[13:]
	for len(p) > 0 {
		if len(p) < 11 {
			return hasVideo, hasAudio, tags, fmt.Errorf("truncated tag header (%d bytes) after %d tags", len(p), len(tags))
		}
		n := int(p[1])<<16 | int(p[2])<<8 | int(p[3])
		ts := uint32(p[7])<<24 | uint32(p[4])<<16 | uint32(p[5])<<8 | uint32(p[6])
		if p[8]|p[9]|p[10] != 0 {
			return hasVideo, hasAudio, tags, fmt.Errorf("tag %d: stream id % x != 0", len(tags), p[8:11])
		}
		if len(p) < 11+n+4 {
			return hasVideo, hasAudio, tags, fmt.Errorf("truncated tag %d: need %d bytes have %d", len(tags), 11+n+4, len(p))
		}
		body := p[11 : 11+n]
		q := p[11+n:]
		pts := uint32(q[0])<<24 | uint32(q[1])<<16 | uint32(q[2])<<8 | uint32(q[3])
		if pts != uint32(11+n) {
			return hasVideo, hasAudio, tags, fmt.Errorf("tag %d: PreviousTagSize %d != %d", len(tags), pts, 11+n)
		}
		tags = append(tags, FLVTag{Type: p[0], Timestamp: ts, Body: body})
		p = q[4:]
	}
	return hasVideo, hasAudio, tags, nil
}
