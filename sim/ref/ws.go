package ref

import (
	"bytes"
	"compress/flate"
	"fmt"
	"io"
)

// WSFrame is one RFC 6455 frame as found on the wire.
type WSFrame struct {
	Fin     bool
	RSV     byte // RSV1<<2 | RSV2<<1 | RSV3
	Op      byte
	Masked  bool
	Key     [4]byte
	LenForm int // 7, 16 or 64
	Len     uint64
	Payload []byte // unmasked
	Start   int    // offset of the first header byte
	HdrEnd  int
	End     int
}

func (f WSFrame) String() string {
	return fmt.Sprintf("{fin=%v rsv=%d op=%d mask=%v len=%d(%d-bit)}", f.Fin, f.RSV, f.Op, f.Masked, f.Len, f.LenForm)
}

func (f WSFrame) IsControl() bool { return f.Op >= 8 }

// WSParse splits b into frames (structure only). It stops at the first
// incomplete frame and returns the number of bytes consumed; err reports a
// header that can never be a frame (64-bit length with the top bit set) or a
// non-minimal length encoding when strictLen is set.
func WSParse(b []byte, strictLen bool) (frames []WSFrame, used int, err error) {
	for {
		p := b[used:]
		if len(p) < 2 {
			return
		}
		f := WSFrame{Start: used}
		f.Fin = p[0]&0x80 != 0
		f.RSV = (p[0] >> 4) & 7
		f.Op = p[0] & 0xf
		f.Masked = p[1]&0x80 != 0
		l := uint64(p[1] & 0x7f)
		h := 2
		f.LenForm = 7
		switch l {
		case 126:
			if len(p) < 4 {
				return
			}
			l = uint64(p[2])<<8 | uint64(p[3])
			h = 4
			f.LenForm = 16
			if strictLen && l < 126 {
				return frames, used, fmt.Errorf("offset %d: length %d in 16-bit form is not minimal", used, l)
			}
		case 127:
			if len(p) < 10 {
				return
			}
			l = 0
			for i := 2; i < 10; i++ {
				l = l<<8 | uint64(p[i])
			}
			h = 10
			f.LenForm = 64
			if l>>63 != 0 {
				return frames, used, fmt.Errorf("offset %d: 64-bit length with the most significant bit set", used)
			}
			if strictLen && l < 65536 {
				return frames, used, fmt.Errorf("offset %d: length %d in 64-bit form is not minimal", used, l)
			}
		}
		if f.Masked {
			if len(p) < h+4 {
				return
			}
			copy(f.Key[:], p[h:h+4])
			h += 4
		}
		f.Len = l
		if uint64(len(p)-h) < l {
			return
		}
		f.HdrEnd = used + h
		f.Payload = append([]byte(nil), p[h:h+int(l)]...)
		if f.Masked {
			for i := range f.Payload {
				f.Payload[i] ^= f.Key[i&3]
			}
		}
		used += h + int(l)
		f.End = used
		frames = append(frames, f)
	}
}

// WSMessage is a reassembled data message.
type WSMessage struct {
	Type       byte
	Payload    []byte // after inflation when compressed
	Wire       int    // payload bytes on the wire
	Compressed bool
	Frames     int
	EndFrame   int // index of its last frame
}

// WSValidate checks a complete frame sequence emitted by one endpoint against
// RFC 6455 (and RFC 7692 when deflate was negotiated) and reassembles the data
// messages. fromClient tells which masking rule applies.
func WSValidate(frames []WSFrame, fromClient, deflate bool) (msgs []WSMessage, ctrl []WSFrame, err error) {
	var cur *WSMessage
	var buf []byte
	for i, f := range frames {
		if f.Masked != fromClient {
			return msgs, ctrl, fmt.Errorf("frame %d %v: mask bit %v, but frames from a %s must have it %v", i, f, f.Masked, map[bool]string{true: "client", false: "server"}[fromClient], fromClient)
		}
		if f.RSV&3 != 0 {
			return msgs, ctrl, fmt.Errorf("frame %d %v: RSV2/RSV3 set", i, f)
		}
		switch f.Op {
		case 8, 9, 10:
			if !f.Fin {
				return msgs, ctrl, fmt.Errorf("frame %d %v: fragmented control frame", i, f)
			}
			if f.Len > 125 {
				return msgs, ctrl, fmt.Errorf("frame %d %v: control frame longer than 125 bytes", i, f)
			}
			if f.RSV != 0 {
				return msgs, ctrl, fmt.Errorf("frame %d %v: RSV1 on a control frame", i, f)
			}
			ctrl = append(ctrl, f)
			continue
		case 1, 2:
			if cur != nil {
				return msgs, ctrl, fmt.Errorf("frame %d %v: new data frame inside a fragmented message", i, f)
			}
			cur = &WSMessage{Type: f.Op}
			buf = nil
			if f.RSV&4 != 0 {
				if !deflate {
					return msgs, ctrl, fmt.Errorf("frame %d %v: RSV1 without negotiated permessage-deflate", i, f)
				}
				cur.Compressed = true
			}
		case 0:
			if cur == nil {
				return msgs, ctrl, fmt.Errorf("frame %d %v: continuation without a started message", i, f)
			}
			if f.RSV != 0 {
				return msgs, ctrl, fmt.Errorf("frame %d %v: RSV1 on a continuation frame", i, f)
			}
		default:
			return msgs, ctrl, fmt.Errorf("frame %d %v: reserved opcode", i, f)
		}
		buf = append(buf, f.Payload...)
		cur.Wire += int(f.Len)
		cur.Frames++
		if f.Fin {
			cur.EndFrame = i
			if cur.Compressed {
				p, ierr := WSInflate(buf)
				if ierr != nil {
					return msgs, ctrl, fmt.Errorf("message ending at frame %d: inflate: %v", i, ierr)
				}
				cur.Payload = p
			} else {
				cur.Payload = buf
			}
			msgs = append(msgs, *cur)
			cur = nil
		}
	}
	if cur != nil {
		return msgs, ctrl, fmt.Errorf("stream ends inside a fragmented message")
	}
	return msgs, ctrl, nil
}

// WSInflate undoes permessage-deflate (RFC 7692 section 7.2.2): append the
// 4-byte tail and inflate.
func WSInflate(b []byte) ([]byte, error) {
	r := flate.NewReader(io.MultiReader(bytes.NewReader(b), bytes.NewReader([]byte{0x00, 0x00, 0xff, 0xff, 0x01, 0x00, 0x00, 0xff, 0xff})))
	defer r.Close()
	return io.ReadAll(r)
}

// WSDeflate compresses a message payload as RFC 7692 prescribes (tail removed).
func WSDeflate(b []byte, level int) []byte {
	var out bytes.Buffer
	w, _ := flate.NewWriter(&out, level)
	w.Write(b)
	w.Flush()
	p := out.Bytes()
	if len(p) >= 4 {
		p = p[:len(p)-4]
	}
	return p
}

// WSEncode builds one frame. lenForm 0 = minimal; 16 / 64 force a form;
// declared overrides the length field (payload is written as given).
func WSEncode(fin bool, rsv, op byte, masked bool, key [4]byte, payload []byte, lenForm int, declared int64, useDeclared bool) []byte {
	b0 := op & 0xf
	if fin {
		b0 |= 0x80
	}
	b0 |= (rsv & 7) << 4
	l := uint64(len(payload))
	if useDeclared {
		l = uint64(declared)
	}
	var b []byte
	form := lenForm
	if form == 0 {
		switch {
		case l <= 125:
			form = 7
		case l <= 65535:
			form = 16
		default:
			form = 64
		}
	}
	mb := byte(0)
	if masked {
		mb = 0x80
	}
	switch form {
	case 7:
		b = []byte{b0, mb | byte(l&0x7f)}
	case 16:
		b = []byte{b0, mb | 126, byte(l >> 8), byte(l)}
	default:
		b = []byte{b0, mb | 127, byte(l >> 56), byte(l >> 48), byte(l >> 40), byte(l >> 32), byte(l >> 24), byte(l >> 16), byte(l >> 8), byte(l)}
	}
	if masked {
		b = append(b, key[:]...)
		p := append([]byte(nil), payload...)
		for i := range p {
			p[i] ^= key[i&3]
		}
		return append(b, p...)
	}
	return append(b, payload...)
}
