package ref

// Chunker is a conformant RTMP 1.0 (section 5.3) chunk encoder written from
// the specification. The caller decides, chunk by chunk, which chunk stream
// emits next, which header type starts a message (degraded to a legal one) and
// which basic-header form is used; the chunker does the rest and records the
// messages in completion order with the timestamps the specification defines.
type Chunker struct {
	ChunkSize uint32
	Out       []byte
	Streams   map[uint32]*ChunkerStream
	Done      []RTMPMsg // completion order
	DoneEnd   []int     // len(Out) when each message completed
	DoneHdr   []int     // header type that started it
	DoneExt   []bool    // whether that header carried an extended timestamp
	// counters for evidence
	Hdr       [4]int // header types used to start messages
	Ext       int    // chunks carrying an extended timestamp
	Ext3      int    // type-3 chunks carrying one
	Form      [4]int // basic header forms used (index = bytes)
	Interleav int    // chunk emitted on a different stream than the previous one while that one was unfinished
	lastCS    uint32
}

type ChunkerStream struct {
	CSID uint32
	seen bool
	ts   uint32 // timestamp of the last message started
	dlt  uint32 // last delta (or the timestamp of a type-0 header)
	ln   uint32
	typ  byte
	sid  uint32
	ext  bool   // most recent type 0/1/2 header carried an extended timestamp
	extv uint32 // its value
	cur  *RTMPMsg
	sent int
	curH int
}

func NewChunker() *Chunker {
	return &Chunker{ChunkSize: 128, Streams: map[uint32]*ChunkerStream{}}
}

func (c *Chunker) stream(csid uint32) *ChunkerStream {
	s := c.Streams[csid]
	if s == nil {
		s = &ChunkerStream{CSID: csid}
		c.Streams[csid] = s
	}
	return s
}

// Busy reports whether the chunk stream has an unfinished message.
func (c *Chunker) Busy(csid uint32) bool { s := c.Streams[csid]; return s != nil && s.cur != nil }

// Basic appends a basic header. form is the number of bytes (1, 2, 3); an
// illegal form for the id is replaced by the smallest legal one.
func Basic(fmtType byte, csid uint32, form int) []byte {
	switch {
	case csid >= 2 && csid <= 63:
		form = 1
	case csid >= 320:
		form = 3
	default:
		if form != 3 {
			form = 2
		}
	}
	switch form {
	case 1:
		return []byte{fmtType<<6 | byte(csid)}
	case 2:
		return []byte{fmtType << 6, byte(csid - 64)}
	}
	v := csid - 64
	return []byte{fmtType<<6 | 1, byte(v), byte(v >> 8)}
}

func be24(v uint32) []byte { return []byte{byte(v >> 16), byte(v >> 8), byte(v)} }
func be32(v uint32) []byte { return []byte{byte(v >> 24), byte(v >> 16), byte(v >> 8), byte(v)} }

// LegalHeader returns the most compressed header type <= want that the
// specification allows for starting message m on stream s.
func (s *ChunkerStream) LegalHeader(m *RTMPMsg, want int) int {
	if !s.seen || m.Timestamp < s.ts {
		return 0
	}
	d := m.Timestamp - s.ts
	h := want
	if h >= 1 && m.StreamID != s.sid {
		h = 0
	}
	if h >= 2 && (uint32(len(m.Payload)) != s.ln || m.Type != s.typ) {
		h = 1
	}
	if h >= 3 && d != s.dlt {
		h = 2
	}
	return h
}

// Start begins message m on its chunk stream with header type want (degraded
// if illegal) and emits its first chunk. The stream must not be busy.
func (c *Chunker) Start(m RTMPMsg, want int, form int) int {
	s := c.stream(m.CSID)
	h := s.LegalHeader(&m, want)
	mm := m
	s.cur = &mm
	s.sent = 0
	s.curH = h
	c.Hdr[h]++
	b := Basic(byte(h), m.CSID, form)
	c.Form[len(b)]++
	var field uint32
	switch h {
	case 0:
		field = m.Timestamp
		s.dlt = m.Timestamp
	default:
		field = m.Timestamp - s.ts
		s.dlt = field
	}
	if h <= 2 {
		s.ext = field >= 0xffffff
		s.extv = field
		if s.ext {
			b = append(b, 0xff, 0xff, 0xff)
		} else {
			b = append(b, be24(field)...)
		}
	}
	if h <= 1 {
		b = append(b, be24(uint32(len(m.Payload)))...)
		b = append(b, m.Type)
	}
	if h == 0 {
		b = append(b, byte(m.StreamID), byte(m.StreamID>>8), byte(m.StreamID>>16), byte(m.StreamID>>24))
	}
	if s.ext {
		b = append(b, be32(s.extv)...)
		c.Ext++
		if h == 3 {
			c.Ext3++
		}
	}
	s.seen = true
	s.ts, s.ln, s.typ, s.sid = m.Timestamp, uint32(len(m.Payload)), m.Type, m.StreamID
	c.Out = append(c.Out, b...)
	c.payload(s)
	return h
}

// Continue emits the next (type-3) chunk of the stream's unfinished message.
func (c *Chunker) Continue(csid uint32, form int) {
	s := c.stream(csid)
	if s.cur == nil {
		return
	}
	b := Basic(3, csid, form)
	c.Form[len(b)]++
	if s.ext {
		b = append(b, be32(s.extv)...)
		c.Ext++
		c.Ext3++
	}
	c.Out = append(c.Out, b...)
	c.payload(s)
}

func (c *Chunker) payload(s *ChunkerStream) {
	if c.lastCS != 0 && c.lastCS != s.CSID && c.Busy(c.lastCS) {
		c.Interleav++
	}
	c.lastCS = s.CSID
	rest := s.cur.Payload[s.sent:]
	n := uint32(len(rest))
	if n > c.ChunkSize {
		n = c.ChunkSize
	}
	c.Out = append(c.Out, rest[:n]...)
	s.sent += int(n)
	if s.sent == len(s.cur.Payload) {
		m := *s.cur
		s.cur = nil
		c.Done = append(c.Done, m)
		c.DoneEnd = append(c.DoneEnd, len(c.Out))
		c.DoneHdr = append(c.DoneHdr, s.curH)
		c.DoneExt = append(c.DoneExt, s.ext)
		if m.Type == 1 && len(m.Payload) >= 4 {
			cs := (uint32(m.Payload[0])<<24 | uint32(m.Payload[1])<<16 | uint32(m.Payload[2])<<8 | uint32(m.Payload[3])) & 0x7fffffff
			if cs > 0 {
				c.ChunkSize = cs
			}
		}
	}
}

// LibrtmpPing emits the documented librtmp form: a fresh chunk stream 2
// starting with a type-1 header (0x42) carrying a user-control message.
func (c *Chunker) LibrtmpPing(payload []byte) {
	s := c.stream(2)
	b := []byte{0x42, 0, 0, 0}
	b = append(b, be24(uint32(len(payload)))...)
	b = append(b, 4)
	c.Out = append(c.Out, b...)
	m := RTMPMsg{Type: 4, StreamID: 0, Timestamp: 0, Payload: payload, CSID: 2}
	s.seen, s.ts, s.dlt, s.ln, s.typ, s.sid, s.ext = true, 0, 0, uint32(len(payload)), 4, 0, false
	s.cur = &m
	s.sent = 0
	s.curH = 1
	c.Hdr[1]++
	c.Form[1]++
	c.payload(s)
	for s.cur != nil {
		c.Continue(2, 1)
	}
}

// CurPayload returns the payload of the stream's unfinished message.
func (s *ChunkerStream) CurPayload() []byte {
	if s.cur == nil {
		return nil
	}
	return s.cur.Payload
}
