// Package rtmpx runs a simulated RTMP session: two real rtmp.Protocol endpoints
// (A = client, B = server) on a sim duplex transport, each with a writer task
// and a reader task, after the real simple handshake over the same transport.
// It is shared by the RTMP checks; oracles live in the checks.
package rtmpx

import (
	"bytes"
	"errors"
	"fmt"
	"math/rand"

	"github.com/ossrs/go-oryx-lib/rtmp"
	"verif/sim/kernel"
	"verif/sim/ref"
	"verif/sim/simnet"
)

// The injected transport errors are shaped like *net.OpError: they wrap an
// errno-like inner error (Unwrap). The root cause the statement speaks of is
// the transport's error itself, not what that error wraps.
type injErr struct {
	msg   string
	inner error
}

func (e *injErr) Error() string { return e.msg + ": " + e.inner.Error() }
func (e *injErr) Unwrap() error { return e.inner }

var ErrInjRead error = &injErr{"injected transport read failure", errors.New("connection reset by peer")}
var ErrInjWrite error = &injErr{"injected transport write failure", errors.New("broken pipe")}

type Msg struct {
	Type    byte
	SID     uint32
	TS      uint32
	Payload []byte
}

func (m Msg) String() string {
	return fmt.Sprintf("{type %d sid %d ts %#x len %d}", m.Type, m.SID, m.TS, len(m.Payload))
}

func (m Msg) Equal(o Msg) bool {
	return m.Type == o.Type && m.SID == o.SID && m.TS == o.TS && bytes.Equal(m.Payload, o.Payload)
}

// Diff names the first differing field.
func (m Msg) Diff(o Msg) string {
	switch {
	case m.Type != o.Type:
		return "type"
	case m.SID != o.SID:
		return "stream-id"
	case m.TS != o.TS:
		return "timestamp"
	case len(m.Payload) != len(o.Payload):
		return "length"
	case !bytes.Equal(m.Payload, o.Payload):
		return "payload"
	}
	return ""
}

type Sent struct {
	Op     int
	Msg    Msg
	IsSCS  bool
	Err    error
	EndOff int64 // bytes accepted by the transport in this direction when the call returned
	Step0  int   // event stamps: call / return
	Step1  int
	W0, W1 int // transport write calls made during the call: [W0, W1)
}

type flag struct{ v int32 }

//go:norace
func (f *flag) Ready() bool { return f.v != 0 }

//go:norace
func (f *flag) set() { f.v = 1 }

type End struct {
	Name    string
	Conn    *simnet.Conn
	Proto   *rtmp.Protocol
	HsErr   error
	HsStage string
	hs      flag
	Sent    []Sent
	Recv    []Msg
	RecvErr error
	Crashed bool
	HsW0, HsW1      int
	ClosedByFault   bool
	CloseOutTotal   int64
	CloseInConsumed int64
	// W0/W1: transport write-call index range of each Sent item; HsW: of the handshake
	// RecvSteps[i] is the scheduler step at which message i was returned.
	RecvSteps []int
}

type Session struct {
	P    *kernel.Plan
	S    *kernel.Sched
	Tape *kernel.Tape
	A, B *End
	Err  error // scheduler error (stuck / step limit)
	Stuck []string
	// Hook lets a check add per-endpoint behaviour for op kinds it owns;
	// it returns true if it handled the op.
	Hook func(s *Session, e *End, t *kernel.Task, i int, op kernel.Op) bool
	// OnRecv is called in the reader task for every message returned.
	OnRecv func(s *Session, e *End, t *kernel.Task, m *rtmp.Message)
	// ExtraTasks are started along with the four endpoint tasks.
	ExtraTasks func(s *Session)
	// ReaderFn, when set, replaces the default ReadMessage loop of the reader tasks.
	ReaderFn      func(s *Session, e *End, t *kernel.Task)
	halfClose     func(e *End) bool
	SkipHandshake bool
	NoHalfClose   bool
}

const HandshakeBytes = 1 + 1536 + 1536

// SIDOf recovers the unexported stream id of a received message by
// re-serialising its header through a recording Protocol.
func SIDOf(m *rtmp.Message) uint32 {
	var buf bytes.Buffer
	mm := *m
	if len(mm.Payload) > 1 {
		mm.Payload = mm.Payload[:1]
	}
	if len(mm.Payload) == 0 {
		mm.Payload = []byte{0}
	}
	rtmp.NewProtocol(&buf).WriteMessage(&mm)
	// the header is read back with the reference chunk parser, whatever basic
	// header form the library chose for the message's chunk stream id
	b := buf.Bytes()
	cp := ref.NewChunkParser()
	cp.Feed(b)
	if cp.Err == nil && len(cp.Msgs) == 1 && cp.Pending() == 0 {
		return cp.Msgs[0].StreamID
	}
	// The library writes a received message's chunk stream id as one byte
	// (id & 0x3f) even for ids >= 64, which the parser cannot read back: fall
	// back to the type-0 header behind a 1-byte basic header.
	if len(b) < 12 {
		return 0xdeadbeef
	}
	return uint32(b[8]) | uint32(b[9])<<8 | uint32(b[10])<<16 | uint32(b[11])<<24
}

func FromLib(m *rtmp.Message) Msg {
	return Msg{Type: byte(m.MessageType), SID: SIDOf(m), TS: uint32(m.Timestamp), Payload: m.Payload}
}

func NewSession(p *kernel.Plan, mode kernel.Mode, maxSteps int) *Session {
	tape := kernel.NewTape(p)
	s := &Session{P: p, Tape: tape, S: kernel.NewSched(mode, tape, maxSteps)}
	ca, cb := simnet.NewDuplex(s.S, tape, "A", "B")
	// the Protocol only wraps the conn in bufio; creating it up front keeps the
	// writer/reader tasks free of harness-made sharing
	s.A = &End{Name: "A", Conn: ca, Proto: rtmp.NewProtocol(ca)}
	s.B = &End{Name: "B", Conn: cb, Proto: rtmp.NewProtocol(cb)}
	ab, ba := ca.Out, cb.Out
	ab.Record, ba.Record = true, true
	ab.RSeg, ba.RSeg = int(p.C("rsegB")), int(p.C("rsegA"))
	ab.WSeg, ba.WSeg = int(p.C("wsegA")), int(p.C("wsegB"))
	ab.PostYield = p.CD("post", 1) != 0
	ba.PostYield = ab.PostYield
	for _, f := range p.Faults {
		var pipe *simnet.Pipe
		switch f.W {
		case "AB":
			pipe = ab
		case "BA":
			pipe = ba
		}
		switch f.K {
		case "cut":
			if pipe != nil {
				pipe.CutAt = f.At
			}
		case "rerr":
			if pipe != nil {
				pipe.RErrAt, pipe.RErrN, pipe.RErr, pipe.RErrStick = int(f.At), int(f.Arg), ErrInjRead, true
			}
		case "werr", "werr1":
			if pipe != nil {
				pipe.WErrAt, pipe.WErrN, pipe.WErr, pipe.WErrStick = int(f.At), int(f.Arg), ErrInjWrite, f.K == "werr"
			}
		case "short":
			if pipe != nil {
				pipe.ShortAt, pipe.ShortN = int(f.At), int(f.Arg)
			}
		case "close":
			e := s.A
			if f.W == "B" {
				e = s.B
			}
			s.S.AtStep(int(f.At), func() {
				if !e.Crashed {
					e.Crashed = true
					e.CloseOutTotal = e.Conn.Out.Total
					e.CloseInConsumed = e.Conn.In.Consumed
					e.ClosedByFault = true
					e.Conn.Close()
					s.S.SchedEv("fault", "close "+e.Name)
				}
			})
		}
	}
	return s
}

func (s *Session) peer(e *End) *End {
	if e == s.A {
		return s.B
	}
	return s.A
}

func (s *Session) crash(e *End) {
	if !e.Crashed {
		e.Crashed = true
		e.CloseOutTotal = e.Conn.Out.Total
		e.CloseInConsumed = e.Conn.In.Consumed
		e.Conn.Close()
	}
}

func (s *Session) handshake(e *End, t *kernel.Task) error {
	seed := int64(s.P.Seed)*2 + 1
	if e == s.B {
		seed++
	}
	hs := rtmp.NewHandshake(rand.New(rand.NewSource(seed)))
	c := e.Conn
	stage := func(n string) { e.HsStage = n }
	if e == s.A {
		stage("write c0")
		if err := hs.WriteC0S0(c); err != nil {
			return err
		}
		stage("write c1")
		if err := hs.WriteC1S1(c); err != nil {
			return err
		}
		stage("read s0")
		s0, err := hs.ReadC0S0(c)
		if err != nil {
			return err
		}
		if len(s0) != 1 || s0[0] != 3 {
			return fmt.Errorf("handshake-mismatch: s0 = % x", s0)
		}
		stage("read s1")
		s1, err := hs.ReadC1S1(c)
		if err != nil {
			return err
		}
		if len(s1) != 1536 {
			return fmt.Errorf("handshake-mismatch: s1 has %d bytes", len(s1))
		}
		stage("write c2")
		if err := hs.WriteC2S2(c, s1); err != nil {
			return err
		}
		stage("read s2")
		s2, err := hs.ReadC2S2(c)
		if err != nil {
			return err
		}
		// S2 echoes C1
		w := c.Out.Wire
		if len(w) >= 1537 && !bytes.Equal(s2, w[1:1537]) {
			return fmt.Errorf("handshake-mismatch: s2 is not the echo of c1")
		}
		return nil
	}
	stage("read c0")
	c0, err := hs.ReadC0S0(c)
	if err != nil {
		return err
	}
	if len(c0) != 1 || c0[0] != 3 {
		return fmt.Errorf("handshake-mismatch: c0 = % x", c0)
	}
	stage("read c1")
	c1, err := hs.ReadC1S1(c)
	if err != nil {
		return err
	}
	if len(c1) != 1536 {
		return fmt.Errorf("handshake-mismatch: c1 has %d bytes", len(c1))
	}
	stage("write s0")
	if err := hs.WriteC0S0(c); err != nil {
		return err
	}
	stage("write s1")
	if err := hs.WriteC1S1(c); err != nil {
		return err
	}
	stage("write s2")
	if err := hs.WriteC2S2(c, c1); err != nil {
		return err
	}
	stage("read c2")
	c2, err := hs.ReadC2S2(c)
	if err != nil {
		return err
	}
	w := c.Out.Wire
	if len(w) >= 1537 && !bytes.Equal(c2, w[1:1537]) {
		return fmt.Errorf("handshake-mismatch: c2 is not the echo of s1")
	}
	return nil
}

func (s *Session) writer(e *End) func(t *kernel.Task) {
	return func(t *kernel.Task) {
		if !s.SkipHandshake {
			e.HsW0 = e.Conn.Out.St.Writes
			err := s.handshake(e, t)
			e.HsW1 = e.Conn.Out.St.Writes
			if err != nil {
				e.HsErr = err
				t.Evf("hs-fail", "%s at %s: %v", e.Name, e.HsStage, err)
				s.crash(e)
				e.hs.set()
				return
			}
			t.Ev("hs-ok", e.Name)
		}
		e.hs.set()
		idx := 0
		if e == s.B {
			idx = 1
		}
		for i, op := range s.P.Ops {
			if op.T != idx {
				continue
			}
			if e.Crashed {
				return
			}
			if s.Hook != nil && s.Hook(s, e, t, i, op) {
				continue
			}
			switch op.K {
			case "msg":
				if len(op.N) < 5 {
					continue
				}
				m := rtmp.NewStreamMessage(int(uint32(op.N[1])))
				if op.N[1] == 0 && op.N[4]%2 == 0 {
					m = rtmp.NewMessage() // the other exported constructor (stream id 0)
				}
				m.MessageType = rtmp.MessageType(op.N[0])
				m.Timestamp = uint64(op.N[2])
				m.Payload = Body(op)
				want := Msg{Type: byte(op.N[0]), SID: uint32(op.N[1]), TS: uint32(op.N[2]), Payload: m.Payload}
				st0, w0 := s.S.Now(), e.Conn.Out.St.Writes
				err := e.Proto.WriteMessage(m)
				e.Sent = append(e.Sent, Sent{Op: i, Msg: want, Err: err, EndOff: e.Conn.Out.Total, Step0: st0, Step1: s.S.Now(), W0: w0, W1: e.Conn.Out.St.Writes})
				t.Evf("wrote", "%s %v err=%v", e.Name, want, err)
				if err != nil {
					s.crash(e)
					return
				}
			case "scs":
				pkt := rtmp.NewSetChunkSize()
				pkt.ChunkSize = uint32(op.N[0])
				b, _ := pkt.MarshalBinary()
				var scsSID uint32 // optional second argument: the message stream id it is announced on
				if len(op.N) > 1 {
					scsSID = uint32(op.N[1])
				}
				want := Msg{Type: 1, SID: scsSID, TS: 0, Payload: b}
				st0, w0 := s.S.Now(), e.Conn.Out.St.Writes
				err := e.Proto.WritePacket(pkt, int(scsSID))
				e.Sent = append(e.Sent, Sent{Op: i, Msg: want, IsSCS: true, Err: err, EndOff: e.Conn.Out.Total, Step0: st0, Step1: s.S.Now(), W0: w0, W1: e.Conn.Out.St.Writes})
				t.Evf("wrote-scs", "%s %d err=%v", e.Name, op.N[0], err)
				if err != nil {
					s.crash(e)
					return
				}
			}
		}
		hc := !s.NoHalfClose
		if s.halfClose != nil {
			hc = s.halfClose(e)
		}
		if hc && !e.Crashed {
			t.Yield("half-close:" + e.Name)
			e.Conn.Out.CloseWrite()
			t.Ev("half-close", e.Name)
		}
	}
}

// Body builds the payload of a "msg" op: N = [type, sid, ts, len, fill].
// Protocol-control types get well-formed bodies.
func Body(op kernel.Op) []byte {
	n := int(op.N[3])
	if n < 1 {
		n = 1
	}
	b := kernel.Fill(n, uint64(op.N[4]))
	switch op.N[0] {
	case 4: // user control: event type + event data sized for the event
		if n < 6 {
			b = kernel.Fill(6, uint64(op.N[4]))
		}
		et := uint16(b[0])<<8 | uint16(b[1])
		if et == 3 && len(b) < 10 {
			b = append(b, kernel.Fill(10-len(b), uint64(op.N[4])+1)...)
		}
	case 2, 3, 5:
		if n < 4 {
			b = kernel.Fill(4, uint64(op.N[4]))
		}
	case 6:
		if n < 5 {
			b = kernel.Fill(5, uint64(op.N[4]))
		}
	}
	return b
}

func (s *Session) reader(e *End) func(t *kernel.Task) {
	return func(t *kernel.Task) {
		if !e.hs.Ready() {
			t.Block("wait-handshake:"+e.Name, &e.hs)
		}
		if e.HsErr != nil || e.Proto == nil {
			return
		}
		if s.ReaderFn != nil {
			s.ReaderFn(s, e, t)
			return
		}
		for {
			m, err := e.Proto.ReadMessage()
			if err != nil {
				e.RecvErr = err
				t.Evf("read-err", "%s %v", e.Name, err)
				return
			}
			if m == nil {
				e.RecvErr = errors.New("nil message with nil error")
				return
			}
			got := FromLib(m)
			e.Recv = append(e.Recv, got)
			e.RecvSteps = append(e.RecvSteps, s.S.Now())
			t.Evf("read", "%s %v", e.Name, got)
			if s.OnRecv != nil {
				s.OnRecv(s, e, t, m)
			}
		}
	}
}

// Run2 is Run with a per-endpoint choice of who half-closes after its ops
// (NoHalfClose is ignored).
func (s *Session) Run2(halfClose func(e *End) bool) {
	s.halfClose = halfClose
	s.Run()
}

// Run executes the session to completion (or until the scheduler gives up)
// and unwinds whatever is left.
func (s *Session) Run() {
	s.S.Go("Aw", s.writer(s.A))
	s.S.Go("Ar", s.reader(s.A))
	s.S.Go("Bw", s.writer(s.B))
	s.S.Go("Br", s.reader(s.B))
	if s.ExtraTasks != nil {
		s.ExtraTasks(s)
	}
	s.Err = s.S.Run()
	if s.Err != nil {
		s.Stuck = s.S.Unfinished()
		s.A.Conn.Close()
		s.B.Conn.Close()
		s.S.Abort()
	}
	s.S.Join()
}

// ApplyStats copies transport counters into the result.
func (s *Session) ApplyStats(res *kernel.Result) {
	for _, p := range []*simnet.Pipe{s.A.Conn.Out, s.B.Conn.Out} {
		res.Stat("transport_reads", int64(p.St.Reads))
		res.Stat("transport_writes", int64(p.St.Writes))
		res.Stat("short_reads", int64(p.St.ShortReads))
		res.Stat("one_byte_reads", int64(p.St.OneByteReads))
		res.Stat("split_writes", int64(p.St.SplitWrites))
		res.Stat("blocked_reads", int64(p.St.BlockedReads))
		res.Stat("fault_cut", int64(p.St.Cuts))
		res.Stat("fault_read_error", int64(p.St.ReadErrs))
		res.Stat("fault_write_error", int64(p.St.WriteErrs))
		res.Stat("fault_short_write", int64(p.St.Shorts))
	}
	res.Stat("scheduler_steps", int64(s.S.Now()))
	res.Stat("task_switches", int64(s.S.Switches))
	res.Hash = s.S.Log.Hash()
	res.Inter = s.S.Log.Interleaving()
	res.Tail = s.S.Log.Tail(12)
}
