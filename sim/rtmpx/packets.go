package rtmpx

import (
	"fmt"
	"math"

	"github.com/ossrs/go-oryx-lib/amf0"
	"github.com/ossrs/go-oryx-lib/rtmp"
	"verif/sim/kernel"
)

type tgen struct {
	x     uint64
	nodes int
	max   int
}

func (g *tgen) u() uint64 {
	g.x ^= g.x << 13
	g.x ^= g.x >> 7
	g.x ^= g.x << 17
	return g.x
}
func (g *tgen) n(k int) int {
	if k <= 1 {
		return 0
	}
	return int(g.u()>>13) % k
}

var keyAlpha = []string{"app", "tcUrl", "flashVer", "fpad", "objectEncoding", "level", "code", "description", "k", "é", "a b", "0", "1", "duration", "width"}

func (g *tgen) str(max int) string {
	n := g.n(max + 1)
	b := make([]byte, n)
	for i := range b {
		b[i] = strAlpha[g.n(len(strAlpha))]
	}
	return string(b)
}

var strAlpha = []byte("abcXYZ019 /:?=&._-\x00\xc3\xa9\"'\\")

var specialNums = []float64{0, math.Copysign(0, -1), 1, -1, 1.5, math.Inf(1), math.Inf(-1), math.MaxFloat64, math.SmallestNonzeroFloat64, 4294967296, 1e100}

func (g *tgen) num() float64 {
	switch g.n(4) {
	case 0:
		return specialNums[g.n(len(specialNums))]
	case 1:
		return math.Float64frombits(0x7ff8000000000001 | g.u()&0xffff) // NaN with payload
	case 2:
		return float64(int64(g.u()>>44)) / 8
	}
	return math.Float64frombits(g.u())
}

// Tree builds an AMF0 value tree through the exported constructors.
func (g *tgen) Tree(depth int) amf0.Amf0 {
	g.nodes++
	k := g.n(10)
	if depth > 3 || g.nodes > g.max {
		k = g.n(6)
	}
	switch k {
	case 0, 1:
		return amf0.NewNumber(g.num())
	case 2:
		return amf0.NewBoolean(g.n(2) == 0)
	case 3:
		if g.n(40) == 0 {
			return amf0.NewString(g.str(65535))
		}
		return amf0.NewString(g.str(24))
	case 4:
		return amf0.NewNull()
	case 5:
		return amf0.NewUndefined()
	case 6, 7:
		return g.Object(depth)
	case 8:
		o := amf0.NewEcmaArray()
		lastContainers = append(lastContainers, func(k string, v amf0.Amf0) { o.Set(k, v) })
		n := g.n(4)
		for i := 0; i < n; i++ {
			o.Set(g.key(i), g.Tree(depth+1))
		}
		return o
	default:
		o := amf0.NewStrictArray()
		n := g.n(4)
		for i := 0; i < n; i++ {
			o.Set(fmt.Sprint(i), g.Tree(depth+1))
		}
		return o
	}
}

func (g *tgen) key(i int) string {
	if i == 0 && g.n(12) == 0 {
		return "" // an empty property name is a legal AMF0 key (only key-less end markers end an object)
	}
	if g.n(3) == 0 {
		return fmt.Sprintf("%s%d", g.str(6), i) + "k"
	}
	return keyAlpha[g.n(len(keyAlpha))] + fmt.Sprint(i)
}

// Containers created while the last packet was built (objects and ECMA arrays,
// outermost first): handles for updating a value tree in place later on.
var lastContainers []func(key string, v amf0.Amf0)

// LastContainers returns setters of the keyed containers of the packet BuildPacket made last.
func LastContainers() []func(key string, v amf0.Amf0) { return lastContainers }

func (g *tgen) Object(depth int) *amf0.Object {
	o := amf0.NewObject()
	lastContainers = append(lastContainers, func(k string, v amf0.Amf0) { o.Set(k, v) })
	n := g.n(5)
	for i := 0; i < n; i++ {
		o.Set(g.key(i), g.Tree(depth+1))
	}
	return o
}

func newTgen(seed int64, max int64) *tgen {
	if max < 1 {
		max = 1
	}
	return &tgen{x: uint64(seed)*0x9e3779b97f4a7c15 + 12345, max: int(max)}
}

func arg(op kernel.Op, i int) int64 {
	if i < len(op.N) {
		return op.N[i]
	}
	return 0
}

func tid(q int64) amf0.Number { return amf0.Number(float64(q) / 4) }

var callNames = []string{"onStatus", "onBWDone", "releaseStream", "FCPublish", "FCUnpublish", "|RtmpSampleAccess", "getStreamLength", "pause", "x", ""}

// PacketKinds lists op kinds BuildPacket understands.
var PacketKinds = []string{"connect", "connectRes", "createStream", "createStreamRes", "publish", "play", "call", "closeStream", "scs", "was", "spb", "uc"}

// BuildPacket constructs the packet an op describes, through the library's
// exported constructors and fields only. kind is the Go type name the packet
// has on the sending side; wire is the Go type name the protocol defines for it
// on the receiving side (for a _result: decided by the transaction model).
func BuildPacket(op kernel.Op) (pkt rtmp.Packet, kind string) {
	lastContainers = nil
	switch op.K {
	case "connect":
		p := rtmp.NewConnectAppPacket()
		p.CommandObject = newTgen(arg(op, 0), arg(op, 1)).Object(0)
		if arg(op, 2) != 0 {
			p.Args = newTgen(arg(op, 3), arg(op, 1)).Object(0)
		}
		return p, "*rtmp.ConnectAppPacket"
	case "connectRes":
		p := rtmp.NewConnectAppResPacket(tid(arg(op, 0)))
		p.CommandObject = newTgen(arg(op, 1), arg(op, 2)).Object(0)
		if arg(op, 3) != 0 {
			p.Args = newTgen(arg(op, 4), arg(op, 2)).Object(0)
		}
		if arg(op, 5) != 0 {
			p.CommandName = "_error"
		}
		return p, "*rtmp.ConnectAppResPacket"
	case "createStream":
		p := rtmp.NewCreateStreamPacket()
		p.TransactionID = tid(arg(op, 0))
		if arg(op, 1) == 1 {
			p.CommandObject = newTgen(arg(op, 2), 6).Object(0)
		}
		return p, "*rtmp.CreateStreamPacket"
	case "createStreamRes":
		p := rtmp.NewCreateStreamResPacket(tid(arg(op, 0)))
		p.StreamID = amf0.Number(float64(arg(op, 1)) / 2)
		if arg(op, 2) == 1 {
			p.CommandObject = newTgen(arg(op, 3), 6).Object(0)
		}
		if arg(op, 4) != 0 {
			p.CommandName = "_error"
		}
		return p, "*rtmp.CreateStreamResPacket"
	case "publish":
		p := rtmp.NewPublishPacket()
		p.TransactionID = tid(arg(op, 0))
		g := newTgen(arg(op, 1), 1)
		p.StreamName = amf0.String(g.str(int(arg(op, 2))))
		if arg(op, 3) != 0 {
			p.StreamType = amf0.String(g.str(int(arg(op, 3))))
		}
		return p, "*rtmp.PublishPacket"
	case "play":
		p := rtmp.NewPlayPacket()
		p.TransactionID = tid(arg(op, 0))
		p.StreamName = amf0.String(newTgen(arg(op, 1), 1).str(int(arg(op, 2))))
		return p, "*rtmp.PlayPacket"
	case "closeStream":
		p := rtmp.NewCloseStreamPacket()
		p.TransactionID = tid(arg(op, 0))
		return p, "*rtmp.CallPacket"
	case "call":
		p := rtmp.NewCallPacket()
		p.TransactionID = tid(arg(op, 0))
		g := newTgen(arg(op, 1), arg(op, 3))
		name := callNames[int(uint64(arg(op, 1))%uint64(len(callNames)))]
		if name == "" {
			name = "m" + g.str(12)
		}
		p.CommandName = amf0.String(name)
		switch arg(op, 2) {
		case 1:
			p.CommandObject = amf0.NewNull()
		case 2:
			p.CommandObject = g.Tree(0)
		}
		if arg(op, 2) != 0 && arg(op, 4) != 0 {
			p.Args = newTgen(arg(op, 5), arg(op, 3)).Tree(0)
		}
		return p, "*rtmp.CallPacket"
	case "scs":
		p := rtmp.NewSetChunkSize()
		p.ChunkSize = uint32(arg(op, 0))
		return p, "*rtmp.SetChunkSize"
	case "was":
		p := rtmp.NewWindowAcknowledgementSize()
		p.AckSize = uint32(arg(op, 0))
		return p, "*rtmp.WindowAcknowledgementSize"
	case "spb":
		p := rtmp.NewSetPeerBandwidth()
		p.Bandwidth = uint32(arg(op, 0))
		p.LimitType = rtmp.LimitType(arg(op, 1))
		return p, "*rtmp.SetPeerBandwidth"
	case "uc":
		p := rtmp.NewUserControl()
		p.EventType = rtmp.EventType(arg(op, 0))
		p.EventData = int32(arg(op, 1))
		if p.EventType == rtmp.EventTypeFmsEvent0 {
			p.EventData = int32(uint8(arg(op, 1)))
		}
		if p.EventType == rtmp.EventTypeSetBufferLength {
			p.ExtraData = int32(arg(op, 2))
		}
		return p, "*rtmp.UserControl"
	}
	return nil, ""
}

// Fresh returns an empty packet of the same Go type, for the unmarshal
// round-trip sub-claim.
func Fresh(kind string) rtmp.Packet {
	switch kind {
	case "*rtmp.ConnectAppPacket":
		return rtmp.NewConnectAppPacket()
	case "*rtmp.ConnectAppResPacket":
		return rtmp.NewConnectAppResPacket(0)
	case "*rtmp.CreateStreamPacket":
		p := rtmp.NewCreateStreamPacket()
		return p
	case "*rtmp.CreateStreamResPacket":
		return rtmp.NewCreateStreamResPacket(0)
	case "*rtmp.PublishPacket":
		return rtmp.NewPublishPacket()
	case "*rtmp.PlayPacket":
		return rtmp.NewPlayPacket()
	case "*rtmp.CallPacket":
		return rtmp.NewCallPacket()
	case "*rtmp.SetChunkSize":
		return rtmp.NewSetChunkSize()
	case "*rtmp.WindowAcknowledgementSize":
		return rtmp.NewWindowAcknowledgementSize()
	case "*rtmp.SetPeerBandwidth":
		return rtmp.NewSetPeerBandwidth()
	case "*rtmp.UserControl":
		return rtmp.NewUserControl()
	}
	return nil
}

// Trees lists the AMF0 values a packet carries (for the AMF0 pre-filter).
func Trees(pkt rtmp.Packet) []amf0.Amf0 {
	var out []amf0.Amf0
	add := func(a amf0.Amf0) {
		if a != nil && !isNilIface(a) {
			out = append(out, a)
		}
	}
	switch p := pkt.(type) {
	case *rtmp.ConnectAppPacket:
		add(p.CommandObject)
		if p.Args != nil {
			add(p.Args)
		}
	case *rtmp.ConnectAppResPacket:
		add(p.CommandObject)
		if p.Args != nil {
			add(p.Args)
		}
	case *rtmp.CreateStreamPacket:
		add(p.CommandObject)
	case *rtmp.CreateStreamResPacket:
		add(p.CommandObject)
	case *rtmp.CallPacket:
		add(p.CommandObject)
		add(p.Args)
	}
	return out
}

func isNilIface(a amf0.Amf0) bool {
	switch v := a.(type) {
	case *amf0.Object:
		return v == nil
	}
	return false
}

// TreeOK checks that an AMF0 value survives marshal -> Discovery+unmarshal ->
// marshal on its own (a C05/C06 matter; failures are reported under a separate
// key so that they cannot mask dispatch and transaction findings).
func TreeOK(a amf0.Amf0) string {
	b, err := a.MarshalBinary()
	if err != nil {
		return "marshal: " + err.Error()
	}
	if len(b) != a.Size() {
		return fmt.Sprintf("Size() %d != %d marshalled bytes", a.Size(), len(b))
	}
	c, err := amf0.Discovery(b)
	if err != nil {
		return "discovery: " + err.Error()
	}
	if err := c.UnmarshalBinary(b); err != nil {
		return "unmarshal: " + err.Error()
	}
	b2, err := c.MarshalBinary()
	if err != nil {
		return "re-marshal: " + err.Error()
	}
	if string(b) != string(b2) {
		return fmt.Sprintf("decodes without error into a different tree: %d bytes re-marshal to %d bytes", len(b), len(b2))
	}
	if c.Size() != len(b) {
		return fmt.Sprintf("decoded Size() %d != %d bytes consumed", c.Size(), len(b))
	}
	return ""
}
