// Package simnet is the simulated transport / disk: an in-memory reliable
// ordered byte stream whose segmentation, yield points and faults are decided
// by the plan. It implements io.ReadWriter and net.Conn.
package simnet

import (
	"errors"
	"fmt"
	"io"
	"net"
	"sync"
	"time"

	"verif/sim/kernel"
)

// Segmentation modes.
const (
	SegWhole  = 0 // deliver as much as asked/available
	SegOne    = 1 // one byte at a time
	SegTape   = 2 // 1..n chosen by the tape
	SegSmall  = 3 // 1..min(n,16) chosen by the tape
	SegChunky = 4 // tape picks among {1, n/2, n-1, n}
)

// Stats counts what actually fired.
type Stats struct {
	Reads, Writes     int
	ShortReads        int // a read returned fewer bytes than available and asked
	OneByteReads      int
	SplitWrites       int
	Cuts, ReadErrs    int
	WriteErrs, Shorts int
	Closes            int
	BlockedReads      int
	EOFWithData       int
}

// Pipe is one direction of a connection (or a file on the sim disk).
type Pipe struct {
	Name string
	S    *kernel.Sched
	Tape *kernel.Tape

	mu       sync.Mutex // real mutex: the only happens-before a socket gives
	buf      []byte
	avail    int32 // mirrors len(buf): read lock-free by the scheduler
	eof      int32 // writer closed / cut reached
	rdClosed int32 // reader side closed locally
	wrClosed int32 // writer side closed locally (Conn.Close): writes fail with ErrClosed

	Total    int64 // bytes accepted from the writer
	Consumed int64 // bytes handed to the reader
	Record   bool
	Wire     []byte // every accepted byte (when Record)
	WriteEnd []int  // Wire offset after each accepted write (when Record)
	DepStep  []int  // scheduler step of each accepted write (when Record)
	WriteTask []int // task id of each accepted write (when Record)
	// GateWrites=false turns writes into plain deposits without gates (race
	// engine for code that holds a lock across transport writes).
	NoWriteGates bool

	RSeg, WSeg int
	// NoYield makes writes plain deposits without gates (used by stubs that run
	// outside any task).
	NoYield   bool
	PostYield bool

	CutAt     int64 // deliver only bytes < CutAt, then EOF (-1: none)
	RErrAt    int   // read-call index that fails (-1: none)
	RErrN     int   // bytes still returned with that error
	// OnWriteCall runs at the start of the idx-th Write call, before its bytes
	// are taken (single-threaded harnesses: stands in for a concurrent caller).
	OnWriteCall func(idx int)
	RErr        error
	WErrAt    int // write-call index that fails (-1: none)
	WErrN     int // bytes accepted (and delivered) before the error
	WErr      error
	ShortAt   int // write-call index that returns n < len(p), nil error (-1: none)
	ShortN    int
	WErrStick bool // all later writes fail too
	RErrStick bool // all later reads fail too (a failed transport stays failed)
	// EOFData lets a read that drains the stream return its bytes together with
	// io.EOF (tape-chosen), as the io.Reader contract allows.
	EOFData bool

	RErrFired    bool
	RErrConsumed int64 // bytes handed to the reader up to and including the failing read
	WFaultFired  bool
	WFaultTotal  int64 // bytes accepted up to and including the failing / short write
	WFaultCall   int

	St Stats
}

func NewPipe(name string, s *kernel.Sched, tape *kernel.Tape) *Pipe {
	return &Pipe{Name: name, S: s, Tape: tape, CutAt: -1, RErrAt: -1, WErrAt: -1, ShortAt: -1, PostYield: true}
}

//go:norace
func (p *Pipe) Ready() bool {
	return p.avail > 0 || p.eof != 0 || p.rdClosed != 0 || p.RErrAt == p.St.Reads || (p.RErrStick && p.RErrFired)
}

// Avail is the number of deposited, not yet consumed bytes.
//
//go:norace
func (p *Pipe) Avail() int { return int(p.avail) }

//go:norace
func (p *Pipe) EOF() bool { return p.eof != 0 }

var ErrClosed = errors.New("simnet: use of closed connection")
var ErrPeerGone = errors.New("simnet: write on closed pipe")

func (p *Pipe) segLen(mode int, n int) int {
	if n <= 1 {
		return n
	}
	switch mode {
	case SegOne:
		return 1
	case SegTape:
		return n - p.Tape.Next(n)
	case SegSmall:
		m := n
		if m > 16 {
			m = 16
		}
		return 1 + p.Tape.Next(m)
	case SegChunky:
		switch p.Tape.Next(4) {
		case 0:
			return n
		case 1:
			return 1
		case 2:
			return (n + 1) / 2
		default:
			return n - 1
		}
	}
	return n
}

func (p *Pipe) task() *kernel.Task {
	if p.S == nil || p.NoYield {
		return nil
	}
	return p.S.Cur()
}

func (p *Pipe) wtask() *kernel.Task {
	if p.NoWriteGates {
		return nil
	}
	return p.task()
}

// Read implements io.Reader. It never returns (0, nil) for len(b) > 0.
func (p *Pipe) Read(b []byte) (int, error) {
	if len(b) == 0 {
		return 0, nil
	}
	if !p.Ready() {
		if t := p.task(); t != nil {
			p.St.BlockedReads++
			t.Block("read:"+p.Name, p)
		} else {
			return 0, fmt.Errorf("simnet: read on %s would block outside a task", p.Name)
		}
	}
	p.mu.Lock()
	defer p.mu.Unlock()
	idx := p.St.Reads
	p.St.Reads++
	if p.rdClosed != 0 {
		return 0, ErrClosed
	}
	if p.RErrStick && p.RErrFired {
		return 0, p.RErr
	}
	if idx == p.RErrAt {
		n := p.RErrN
		if n > len(p.buf) {
			n = len(p.buf)
		}
		if n > len(b) {
			n = len(b)
		}
		copy(b, p.buf[:n])
		p.consume(n)
		p.St.ReadErrs++
		p.RErrFired = true
		p.RErrConsumed = p.Consumed
		return n, p.RErr
	}
	if len(p.buf) == 0 {
		return 0, io.EOF
	}
	max := len(b)
	if max > len(p.buf) {
		max = len(p.buf)
	}
	n := p.segLen(p.RSeg, max)
	if n < max {
		p.St.ShortReads++
	}
	if n == 1 && max > 1 {
		p.St.OneByteReads++
	}
	copy(b, p.buf[:n])
	p.consume(n)
	if p.EOFData && len(p.buf) == 0 && p.eof != 0 && p.Tape.Next(2) == 1 {
		p.St.EOFWithData++
		return n, io.EOF
	}
	return n, nil
}

func (p *Pipe) consume(n int) {
	p.buf = p.buf[n:]
	p.avail = int32(len(p.buf))
	p.Consumed += int64(n)
}

// deposit appends bytes to the stream, honouring the cut.
func (p *Pipe) deposit(b []byte) {
	p.mu.Lock()
	defer p.mu.Unlock()
	if p.eof != 0 && p.CutAt < 0 {
		return // stream already ended: nothing is accepted any more
	}
	if p.Record {
		p.Wire = append(p.Wire, b...)
		p.WriteEnd = append(p.WriteEnd, len(p.Wire))
		if p.S != nil {
			p.DepStep = append(p.DepStep, p.S.Now())
			id := -1
			if t := p.S.Cur(); t != nil {
				id = t.ID
			}
			p.WriteTask = append(p.WriteTask, id)
		}
	}
	start := p.Total
	p.Total += int64(len(b))
	if p.CutAt >= 0 {
		if start >= p.CutAt {
			b = nil
		} else if start+int64(len(b)) >= p.CutAt {
			b = b[:p.CutAt-start]
		}
		if p.Total >= p.CutAt && p.eof == 0 {
			p.eof = 1
			p.St.Cuts++
		}
	}
	p.buf = append(p.buf, b...)
	p.avail = int32(len(p.buf))
}

// Write implements io.Writer with the plan's write faults. All bookkeeping is
// done under the pipe's lock, as a kernel socket would.
func (p *Pipe) Write(b []byte) (int, error) {
	if t := p.wtask(); t != nil {
		t.Yield("pre-write:" + p.Name)
	}
	if p.OnWriteCall != nil {
		// what another caller does while this write is in flight (the bytes
		// have not been taken from b yet)
		p.OnWriteCall(p.St.Writes)
	}
	return p.writeNoPre(b)
}

func (p *Pipe) writeNoPre(b []byte) (int, error) {
	t := p.wtask()
	p.mu.Lock()
	idx := p.St.Writes
	p.St.Writes++
	closed, gone := p.wrClosed != 0, p.eof != 0 && p.CutAt < 0
	werr := p.WErrAt >= 0 && (idx == p.WErrAt || (p.WErrStick && idx > p.WErrAt))
	short := idx == p.ShortAt
	p.mu.Unlock()
	if closed {
		return 0, ErrClosed
	}
	if gone {
		return 0, ErrPeerGone
	}
	if werr {
		n := 0
		if idx == p.WErrAt {
			n = p.WErrN
			if n > len(b) {
				n = len(b)
			}
		}
		if n > 0 {
			p.deposit(b[:n])
		}
		p.mu.Lock()
		p.St.WriteErrs++
		if !p.WFaultFired {
			p.WFaultFired, p.WFaultTotal, p.WFaultCall = true, p.Total, idx
		}
		p.mu.Unlock()
		return n, p.WErr
	}
	if short {
		n := p.ShortN
		if n >= len(b) {
			n = len(b) - 1
		}
		if n < 0 {
			n = 0
		}
		if n > 0 {
			p.deposit(b[:n])
		}
		p.mu.Lock()
		p.St.Shorts++
		if !p.WFaultFired {
			p.WFaultFired, p.WFaultTotal, p.WFaultCall = true, p.Total, idx
		}
		p.mu.Unlock()
		return n, nil
	}
	// A write may reach the peer in several segments, with the peer able to run
	// in between.
	rest := b
	for len(rest) > 0 {
		p.mu.Lock()
		closed, gone = p.wrClosed != 0, p.eof != 0 && p.CutAt < 0
		p.mu.Unlock()
		if closed {
			return len(b) - len(rest), ErrClosed
		}
		if gone {
			return len(b) - len(rest), ErrPeerGone
		}
		n := p.segLen(p.WSeg, len(rest))
		p.deposit(rest[:n])
		rest = rest[n:]
		if len(rest) > 0 {
			p.mu.Lock()
			p.St.SplitWrites++
			p.mu.Unlock()
			if t != nil {
				t.Yield("mid-write:" + p.Name)
			}
		}
	}
	if t != nil && p.PostYield {
		t.Yield("post-write:" + p.Name)
	}
	return len(b), nil
}

// CloseWrite ends the stream: the reader sees EOF after the queued bytes.
func (p *Pipe) CloseWrite() {
	p.mu.Lock()
	if p.eof == 0 {
		p.eof = 1
		p.St.Closes++
	}
	p.mu.Unlock()
}

// CloseRead makes local reads fail.
func (p *Pipe) CloseRead() {
	p.mu.Lock()
	p.rdClosed = 1
	p.mu.Unlock()
}

// SetCut installs a cut now: bytes below off are delivered, then EOF.
func (p *Pipe) SetCut(off int64) {
	p.mu.Lock()
	p.CutAt = off
	if p.Total >= off {
		// drop what lies beyond the cut and has not been consumed
		keep := off - p.Consumed
		if keep < 0 {
			keep = 0
		}
		if int(keep) < len(p.buf) {
			p.buf = p.buf[:keep]
			p.avail = int32(len(p.buf))
		}
		p.eof = 1
		p.St.Cuts++
	}
	p.mu.Unlock()
}

// Conn is one end of a duplex connection.
type Conn struct {
	In, Out *Pipe
	name    string
	closed  bool
	// YieldOnClose / YieldOnDeadline make Close and SetWriteDeadline gates.
	YieldOnClose    bool
	YieldOnDeadline bool
	// YieldOnErrInspect makes Temporary() of a timeout error a gate.
	YieldOnErrInspect bool
	Deadlines       int
	WDeadline       time.Time
	RDeadline       time.Time
	// EnforceReadDeadline makes a Read that starts after the read deadline fail
	// with a timeout error.
	EnforceReadDeadline bool
	ReadTimeouts        int
	// EnforceDeadline makes a write fail with a timeout error when the write
	// deadline has passed by the time the write is scheduled.
	EnforceDeadline bool
	Timeouts        int
	// ForeignTimeouts counts the timed-out writes whose governing deadline was
	// armed by another task than the one writing.
	ForeignTimeouts int
	// OwnTimeoutSteps: scheduler step of every timed-out write whose deadline the
	// writing task had armed itself.
	OwnTimeoutSteps []int
	wdeadlineBy     *kernel.Task
	OnClose         func()
}

// NewDuplex creates a connection; a and b are its two ends.
func NewDuplex(s *kernel.Sched, tape *kernel.Tape, an, bn string) (a, b *Conn) {
	ab := NewPipe(an+">"+bn, s, tape)
	ba := NewPipe(bn+">"+an, s, tape)
	return &Conn{In: ba, Out: ab, name: an}, &Conn{In: ab, Out: ba, name: bn}
}

func (c *Conn) Read(b []byte) (int, error) {
	if c.EnforceReadDeadline {
		c.Out.mu.Lock()
		dl := c.RDeadline
		c.Out.mu.Unlock()
		if !dl.IsZero() && !time.Now().Before(dl) {
			c.ReadTimeouts++
			return 0, timeoutError{c}
		}
	}
	return c.In.Read(b)
}
// ErrTimeout is what a write returns when the connection's write deadline has
// passed (EnforceDeadline).
type timeoutError struct{ c *Conn }

func (timeoutError) Error() string { return "simnet: i/o timeout" }
func (timeoutError) Timeout() bool { return true }

// Temporary is a gate when the connection asks for it: code that inspects the
// error (as net code does) between releasing a lock and recording the failure
// can be preempted right there.
func (e timeoutError) Temporary() bool {
	if e.c != nil && e.c.YieldOnErrInspect {
		if t := e.c.Out.wtask(); t != nil {
			t.Yield("err-temporary:" + e.c.name)
		}
	}
	return true
}

var ErrTimeout error = timeoutError{}

func (c *Conn) Write(b []byte) (int, error) {
	if c.EnforceDeadline {
		// the write is "in flight" while the task is parked at the pre-write
		// gate; if simulated time passed the deadline meanwhile, it times out
		if t := c.Out.wtask(); t != nil {
			t.Yield("pre-write:" + c.Out.Name)
		}
		c.Out.mu.Lock()
		dl, by := c.WDeadline, c.wdeadlineBy
		c.Out.mu.Unlock()
		if !dl.IsZero() && !time.Now().Before(dl) {
			c.Timeouts++
			if by != c.Out.wtask() {
				c.ForeignTimeouts++
			} else if c.Out.S != nil {
				c.OwnTimeoutSteps = append(c.OwnTimeoutSteps, c.Out.S.Now())
			}
			return 0, timeoutError{c}
		}
		return c.Out.writeNoPre(b)
	}
	return c.Out.Write(b)
}

func (c *Conn) Close() error {
	if c.YieldOnClose {
		if t := c.Out.wtask(); t != nil {
			t.Yield("close:" + c.name)
		}
	}
	if c.closed {
		return ErrClosed
	}
	c.closed = true
	c.Out.mu.Lock()
	c.Out.wrClosed = 1
	c.Out.mu.Unlock()
	c.Out.CloseWrite()
	c.In.CloseRead()
	if c.OnClose != nil {
		c.OnClose()
	}
	return nil
}

type addr string

func (a addr) Network() string { return "sim" }
func (a addr) String() string  { return string(a) }

func (c *Conn) LocalAddr() net.Addr                { return addr(c.name) }
func (c *Conn) RemoteAddr() net.Addr               { return addr("peer-of-" + c.name) }
func (c *Conn) SetDeadline(t time.Time) error {
	c.Out.mu.Lock()
	c.WDeadline = t
	c.RDeadline = t
	c.Out.mu.Unlock()
	return nil
}
func (c *Conn) SetReadDeadline(t time.Time) error {
	c.Out.mu.Lock()
	c.RDeadline = t
	c.Out.mu.Unlock()
	return nil
}
func (c *Conn) SetWriteDeadline(t time.Time) error {
	c.Out.mu.Lock()
	c.Deadlines++
	c.WDeadline = t
	c.Out.mu.Unlock()
	by := c.Out.wtask()
	c.Out.mu.Lock()
	c.wdeadlineBy = by
	c.Out.mu.Unlock()
	if c.YieldOnDeadline {
		if tk := c.Out.wtask(); tk != nil {
			tk.Yield("deadline:" + c.name)
		}
	}
	return nil
}

var _ net.Conn = (*Conn)(nil)

// StepReached returns the scheduler step at which the stream's accepted bytes
// first reached off (needs Record), or -1.
func (p *Pipe) StepReached(off int64) int {
	for i, e := range p.WriteEnd {
		if int64(e) >= off && i < len(p.DepStep) {
			return p.DepStep[i]
		}
	}
	return -1
}

// TotalNow reads Total under the pipe's lock (for use across tasks).
func (p *Pipe) TotalNow() int64 {
	p.mu.Lock()
	defer p.mu.Unlock()
	return p.Total
}

// Inject deposits bytes into the stream without gates or faults (stub peers).
func (p *Pipe) Inject(b []byte) { p.deposit(b) }
