// Package wsx establishes simulated WebSocket sessions: a client Conn from
// Dialer{NetDial: sim}.Dial and a server Conn from Upgrader.Upgrade over a fake
// http.Hijacker, both through the library's real opening handshake on a sim
// duplex transport.
package wsx

import (
	"time"
	"bufio"
	"bytes"
	"crypto/sha1"
	"encoding/base64"
	"fmt"
	"net"
	"net/http"
	"strings"

	"github.com/ossrs/go-oryx-lib/websocket"
	"verif/sim/kernel"
	"verif/sim/simnet"
)

type Opts struct {
	ClientRB, ClientWB, ServerRB, ServerWB int
	ClientComp, ServerComp                 bool
	ClientSub, ServerSub                   []string
	HandshakeTimeout                       time.Duration // both sides (0: none)
}

type Pair struct {
	O              Opts
	CC, SC         *simnet.Conn
	Client, Server *websocket.Conn
	ClientErr      error
	ServerErr      error
	Resp           *http.Response
	HsC2S, HsS2C   int  // handshake bytes per direction
	Deflate        bool // permessage-deflate negotiated (per the wire)
	cdone, sdone   flagc
}

type flagc struct{ v int32 }

//go:norace
func (f *flagc) Ready() bool { return f.v != 0 }

//go:norace
func (f *flagc) set() { f.v = 1 }

func NewPair(s *kernel.Sched, tape *kernel.Tape, o Opts) *Pair {
	cc, sc := simnet.NewDuplex(s, tape, "C", "S")
	cc.Out.Record, sc.Out.Record = true, true
	return &Pair{O: o, CC: cc, SC: sc}
}

type hijackRW struct {
	conn net.Conn
	brw  *bufio.ReadWriter
	hdr  http.Header
	code int
	body bytes.Buffer
}

func (h *hijackRW) Header() http.Header         { return h.hdr }
func (h *hijackRW) Write(b []byte) (int, error) { return h.body.Write(b) }
func (h *hijackRW) WriteHeader(c int)           { h.code = c }
func (h *hijackRW) Hijack() (net.Conn, *bufio.ReadWriter, error) {
	return h.conn, h.brw, nil
}

// Dial runs the client side of the opening handshake in the calling task.
func (p *Pair) Dial() {
	d := websocket.Dialer{
		NetDial:           func(network, addr string) (net.Conn, error) { return p.CC, nil },
		ReadBufferSize:    p.O.ClientRB,
		WriteBufferSize:   p.O.ClientWB,
		EnableCompression: p.O.ClientComp,
		Subprotocols:      p.O.ClientSub,
		HandshakeTimeout:  p.O.HandshakeTimeout,
	}
	p.Client, p.Resp, p.ClientErr = d.Dial("ws://sim.example/ws", nil)
	p.HsC2S = int(p.CC.Out.TotalNow())
	p.cdone.set()
}

// Upgrade runs the server side in the calling task.
func (p *Pair) Upgrade() {
	defer p.sdone.set()
	br := bufio.NewReaderSize(p.SC, 4096)
	req, err := http.ReadRequest(br)
	if err != nil {
		p.ServerErr = fmt.Errorf("read request: %w", err)
		return
	}
	w := &hijackRW{conn: p.SC, brw: bufio.NewReadWriter(br, bufio.NewWriterSize(p.SC, 4096)), hdr: http.Header{}}
	u := websocket.Upgrader{
		ReadBufferSize:    p.O.ServerRB,
		WriteBufferSize:   p.O.ServerWB,
		EnableCompression: p.O.ServerComp,
		Subprotocols:      p.O.ServerSub,
		HandshakeTimeout:  p.O.HandshakeTimeout,
	}
	p.Server, p.ServerErr = u.Upgrade(w, req, nil)
	if p.ServerErr != nil && w.code != 0 {
		p.ServerErr = fmt.Errorf("%w (http %d: %s)", p.ServerErr, w.code, strings.TrimSpace(w.body.String()))
	}
	p.HsS2C = int(p.SC.Out.TotalNow())
}

// ClientDone / ServerDone are conditions other tasks can block on.
func (p *Pair) ClientDone() kernel.Cond { return &p.cdone }
func (p *Pair) ServerDone() kernel.Cond { return &p.sdone }

const wsGUID = "258EAFA5-E914-47DA-95CA-C5AB0DC85B11"

// CheckHandshake re-derives the handshake verdict from the recorded wire bytes,
// independently of the library: status 101, Upgrade/Connection tokens,
// Sec-WebSocket-Accept = base64(sha1(key + GUID)), extension and subprotocol
// only if offered.
func (p *Pair) CheckHandshake() string {
	c2s, s2c := p.CC.Out.Wire, p.SC.Out.Wire
	if p.HsC2S > len(c2s) || p.HsS2C > len(s2c) || p.HsS2C == 0 {
		return "handshake bytes missing"
	}
	req, err := http.ReadRequest(bufio.NewReader(bytes.NewReader(c2s[:p.HsC2S])))
	if err != nil {
		return "client request does not parse: " + err.Error()
	}
	if req.Method != "GET" || !strings.EqualFold(req.Header.Get("Upgrade"), "websocket") || req.Header.Get("Sec-WebSocket-Version") != "13" {
		return fmt.Sprintf("client request is not a websocket upgrade: %v", req.Header)
	}
	key := req.Header.Get("Sec-WebSocket-Key")
	if raw, err := base64.StdEncoding.DecodeString(key); err != nil || len(raw) != 16 {
		return fmt.Sprintf("Sec-WebSocket-Key %q is not 16 base64-encoded bytes", key)
	}
	resp, err := http.ReadResponse(bufio.NewReader(bytes.NewReader(s2c[:p.HsS2C])), req)
	if err != nil {
		return "server response does not parse: " + err.Error()
	}
	if resp.StatusCode != 101 {
		return fmt.Sprintf("status %d", resp.StatusCode)
	}
	if !strings.EqualFold(resp.Header.Get("Upgrade"), "websocket") || !strings.EqualFold(resp.Header.Get("Connection"), "upgrade") {
		return fmt.Sprintf("Upgrade/Connection headers wrong: %v", resp.Header)
	}
	h := sha1.Sum([]byte(key + wsGUID))
	if want := base64.StdEncoding.EncodeToString(h[:]); resp.Header.Get("Sec-WebSocket-Accept") != want {
		return fmt.Sprintf("Sec-WebSocket-Accept %q, want %q", resp.Header.Get("Sec-WebSocket-Accept"), want)
	}
	offered := strings.Contains(strings.ToLower(strings.Join(req.Header.Values("Sec-WebSocket-Extensions"), ",")), "permessage-deflate")
	accepted := strings.Contains(strings.ToLower(strings.Join(resp.Header.Values("Sec-WebSocket-Extensions"), ",")), "permessage-deflate")
	if accepted && !offered {
		return "server accepted permessage-deflate that the client did not offer"
	}
	p.Deflate = accepted
	if sp := resp.Header.Get("Sec-WebSocket-Protocol"); sp != "" {
		ok := false
		for _, o := range strings.Split(req.Header.Get("Sec-WebSocket-Protocol"), ",") {
			if strings.TrimSpace(o) == sp {
				ok = true
			}
		}
		if !ok {
			return fmt.Sprintf("server selected subprotocol %q that was not offered (%q)", sp, req.Header.Get("Sec-WebSocket-Protocol"))
		}
	}
	return ""
}
