// Package astyield inserts scheduler preemption points into a scratch copy of
// a Go package: before every statement that mentions a package-level variable a
// call simyield.Y("file:line") is inserted, and `x op= e`, `x++`, `x--` on a
// package-level x are split into load / yield / store (a behaviour the Go memory
// model allows for an unsynchronised variable, so the rewrite cannot make
// correct code fail). No yield is inserted after a Lock()/RLock() call in the
// same function body (until the matching Unlock statement), so that no task
// parks holding a mutex; sync/atomic calls stay atomic. Locks that span calls or
// are taken with TryLock are tracked at run time: simyield.L(+1) follows every
// Lock()/RLock() statement and successful TryLock()/TryRLock(), simyield.L(-1)
// precedes every Unlock()/RUnlock() (also deferred ones); the simulator skips
// preemption points while the running task's count is above zero.
package astyield

import (
	"bytes"
	"fmt"
	"go/ast"
	"go/format"
	"go/parser"
	"go/token"
	"os"
	"path/filepath"
	"strings"
)

const YieldImport = "github.com/ossrs/go-oryx-lib/simyield"

// SimyieldSource is written to <module>/simyield/simyield.go in the scratch copy.
const SimyieldSource = `// Package simyield exists only in the scratch copy made by /verif's C18 check.
package simyield

// Hook is installed by the simulator; nil means "no preemption".
var Hook func(point string)

//go:norace
func Y(point string) {
	if h := Hook; h != nil {
		h(point)
	}
}

// Lock is installed by the simulator: the running task took (+1) or is about to
// release (-1) a mutex.
var Lock func(delta int)

//go:norace
func L(delta int) {
	if h := Lock; h != nil {
		h(delta)
	}
}

//go:norace
func T(ok bool) bool {
	if ok {
		L(1)
	}
	return ok
}
`

type Stats struct {
	Files, Yields, Splits int
}

// Options widens what counts as shared state.
type Options struct {
	// Fields are struct field names treated like package-level variables: a
	// statement mentioning x.<field> gets a preemption point in front of it.
	Fields []string
}

// RewriteDir rewrites all non-test .go files of dir in place.
func RewriteDir(dir string) (Stats, error) { return RewriteDirOpts(dir, Options{}) }

// RewriteDirOpts is RewriteDir with options.
func RewriteDirOpts(dir string, opt Options) (Stats, error) {
	fields := map[string]bool{}
	for _, f := range opt.Fields {
		fields[f] = true
	}
	var st Stats
	fset := token.NewFileSet()
	pkgs, err := parser.ParseDir(fset, dir, func(fi os.FileInfo) bool { return !strings.HasSuffix(fi.Name(), "_test.go") }, parser.ParseComments)
	if err != nil {
		return st, err
	}
	for _, pkg := range pkgs {
		// package-level variables
		vars := map[string]bool{}
		for _, f := range pkg.Files {
			for _, d := range f.Decls {
				if gd, ok := d.(*ast.GenDecl); ok && gd.Tok == token.VAR {
					for _, sp := range gd.Specs {
						for _, n := range sp.(*ast.ValueSpec).Names {
							if n.Name != "_" {
								vars[n.Name] = true
							}
						}
					}
				}
			}
		}
		for name, f := range pkg.Files {
			r := &rewriter{fset: fset, vars: vars, fields: fields, file: filepath.Base(name)}
			for _, d := range f.Decls {
				fd, ok := d.(*ast.FuncDecl)
				if !ok || fd.Body == nil || fd.Name.Name == "init" {
					continue
				}
				r.locked = false
				r.locals = map[string]bool{}
				if fd.Recv != nil {
					for _, fl := range fd.Recv.List {
						for _, n := range fl.Names {
							r.locals[n.Name] = true
						}
					}
				}
				for _, fl := range fd.Type.Params.List {
					for _, n := range fl.Names {
						r.locals[n.Name] = true
					}
				}
				if fd.Type.Results != nil {
					for _, fl := range fd.Type.Results.List {
						for _, n := range fl.Names {
							r.locals[n.Name] = true
						}
					}
				}
				r.wrapTryLocks(fd.Body)
				r.block(fd.Body)
			}
			if r.yields+r.depths == 0 {
				continue
			}
			addImport(f, YieldImport)
			var buf bytes.Buffer
			if err := format.Node(&buf, fset, f); err != nil {
				return st, fmt.Errorf("%s: %v", name, err)
			}
			if err := os.WriteFile(name, buf.Bytes(), 0o644); err != nil {
				return st, err
			}
			st.Files++
			st.Yields += r.yields
			st.Splits += r.splits
		}
	}
	return st, nil
}

type rewriter struct {
	fset   *token.FileSet
	fields map[string]bool
	vars   map[string]bool
	locals map[string]bool
	file   string
	locked bool
	yields int
	splits int
	depths int
	tmpN   int
}

func (r *rewriter) depthCall(d int) *ast.CallExpr {
	r.depths++
	return &ast.CallExpr{
		Fun:  &ast.SelectorExpr{X: ast.NewIdent("simyield"), Sel: ast.NewIdent("L")},
		Args: []ast.Expr{&ast.BasicLit{Kind: token.INT, Value: fmt.Sprintf("%d", d)}},
	}
}

func isMethodCall(e ast.Expr, names ...string) bool {
	ce, ok := e.(*ast.CallExpr)
	if !ok || len(ce.Args) != 0 {
		return false
	}
	se, ok := ce.Fun.(*ast.SelectorExpr)
	if !ok {
		return false
	}
	for _, n := range names {
		if se.Sel.Name == n {
			return true
		}
	}
	return false
}

func isOnceDo(e ast.Expr) bool {
	ce, ok := e.(*ast.CallExpr)
	if !ok || len(ce.Args) != 1 {
		return false
	}
	se, ok := ce.Fun.(*ast.SelectorExpr)
	return ok && se.Sel.Name == "Do"
}

// wrapTryLocks turns every X.TryLock() / X.TryRLock() expression of the body
// into simyield.T(X.TryLock()).
func (r *rewriter) wrapTryLocks(body *ast.BlockStmt) {
	var expr func(e ast.Expr) ast.Expr
	expr = func(e ast.Expr) ast.Expr {
		switch v := e.(type) {
		case nil:
			return nil
		case *ast.CallExpr:
			if isMethodCall(v, "TryLock", "TryRLock") {
				r.depths++
				return &ast.CallExpr{Fun: &ast.SelectorExpr{X: ast.NewIdent("simyield"), Sel: ast.NewIdent("T")}, Args: []ast.Expr{v}}
			}
			for i := range v.Args {
				v.Args[i] = expr(v.Args[i])
			}
		case *ast.UnaryExpr:
			v.X = expr(v.X)
		case *ast.BinaryExpr:
			v.X, v.Y = expr(v.X), expr(v.Y)
		case *ast.ParenExpr:
			v.X = expr(v.X)
		}
		return e
	}
	ast.Inspect(body, func(n ast.Node) bool {
		switch v := n.(type) {
		case *ast.IfStmt:
			v.Cond = expr(v.Cond)
		case *ast.ForStmt:
			v.Cond = expr(v.Cond)
		case *ast.ExprStmt:
			v.X = expr(v.X)
		case *ast.AssignStmt:
			for i := range v.Rhs {
				v.Rhs[i] = expr(v.Rhs[i])
			}
		case *ast.ReturnStmt:
			for i := range v.Results {
				v.Results[i] = expr(v.Results[i])
			}
		case *ast.SwitchStmt:
			v.Tag = expr(v.Tag)
		case *ast.CaseClause:
			for i := range v.List {
				v.List[i] = expr(v.List[i])
			}
		}
		return true
	})
}

func (r *rewriter) mentions(n ast.Node) bool {
	found := false
	ast.Inspect(n, func(x ast.Node) bool {
		switch v := x.(type) {
		case *ast.FuncLit:
			return false
		case *ast.SelectorExpr:
			// any selector of the chain may name a shared field
			for e := ast.Expr(v); ; {
				se, ok := e.(*ast.SelectorExpr)
				if !ok {
					break
				}
				if r.fields[se.Sel.Name] {
					found = true
				}
				e = se.X
			}
			// only the left-most identifier can be a package-level variable
			ast.Inspect(v.X, func(y ast.Node) bool {
				if id, ok := y.(*ast.Ident); ok && r.isPkgVar(id) {
					found = true
				}
				return true
			})
			return false
		case *ast.Ident:
			if r.isPkgVar(v) {
				found = true
			}
		}
		return true
	})
	return found
}

func (r *rewriter) isPkgVar(id *ast.Ident) bool {
	if !r.vars[id.Name] || r.locals[id.Name] {
		return false
	}
	if id.Obj != nil {
		if _, ok := id.Obj.Decl.(*ast.ValueSpec); !ok {
			return false
		}
		// a ValueSpec may be local (var x int inside the function): those were
		// recorded in locals when their DeclStmt was visited
	}
	return true
}

func (r *rewriter) yieldStmt(pos token.Pos) ast.Stmt {
	p := r.fset.Position(pos)
	r.yields++
	return &ast.ExprStmt{X: &ast.CallExpr{
		Fun:  &ast.SelectorExpr{X: ast.NewIdent("simyield"), Sel: ast.NewIdent("Y")},
		Args: []ast.Expr{&ast.BasicLit{Kind: token.STRING, Value: fmt.Sprintf("%q", fmt.Sprintf("%s:%d", r.file, p.Line))}},
	}}
}

func isLockCall(s ast.Stmt, names ...string) bool {
	es, ok := s.(*ast.ExprStmt)
	if !ok {
		return false
	}
	ce, ok := es.X.(*ast.CallExpr)
	if !ok {
		return false
	}
	se, ok := ce.Fun.(*ast.SelectorExpr)
	if !ok {
		return false
	}
	for _, n := range names {
		if se.Sel.Name == n {
			return true
		}
	}
	return false
}

func (r *rewriter) block(b *ast.BlockStmt) {
	if b == nil {
		return
	}
	b.List = r.stmts(b.List)
}

func (r *rewriter) stmts(list []ast.Stmt) []ast.Stmt {
	var out []ast.Stmt
	// emit appends s together with the run-time lock count bookkeeping
	emit := func(s ast.Stmt) {
		if es, ok := s.(*ast.ExprStmt); ok && isMethodCall(es.X, "Unlock", "RUnlock") {
			out = append(out, &ast.ExprStmt{X: r.depthCall(-1)})
		}
		if es, ok := s.(*ast.ExprStmt); ok && isOnceDo(es.X) {
			// the function of a sync.Once runs under the Once's own mutex
			out = append(out, &ast.ExprStmt{X: r.depthCall(1)}, s, &ast.ExprStmt{X: r.depthCall(-1)})
			return
		}
		out = append(out, s)
		if es, ok := s.(*ast.ExprStmt); ok && isMethodCall(es.X, "Lock", "RLock") {
			out = append(out, &ast.ExprStmt{X: r.depthCall(1)})
		}
		if ds, ok := s.(*ast.DeferStmt); ok && isMethodCall(ds.Call, "Unlock", "RUnlock") {
			// registered later = runs earlier: the count drops right before the unlock
			out = append(out, &ast.DeferStmt{Call: r.depthCall(-1)})
		}
	}
	for _, s := range list {
		// function literals are bodies of their own (own lock state)
		ast.Inspect(s, func(x ast.Node) bool {
			if fl, ok := x.(*ast.FuncLit); ok {
				saved := r.locked
				r.locked = false
				r.block(fl.Body)
				r.locked = saved
				return false
			}
			return true
		})
		if isLockCall(s, "Lock", "RLock") {
			if !r.locked && r.mentions(s) {
				out = append(out, r.yieldStmt(s.Pos())) // before acquiring: nothing is held yet
			}
			r.locked = true
		}
		// record locals declared by this statement
		switch v := s.(type) {
		case *ast.AssignStmt:
			if v.Tok == token.DEFINE {
				for _, l := range v.Lhs {
					if id, ok := l.(*ast.Ident); ok {
						r.locals[id.Name] = true
					}
				}
			}
		case *ast.DeclStmt:
			if gd, ok := v.Decl.(*ast.GenDecl); ok {
				for _, sp := range gd.Specs {
					if vs, ok := sp.(*ast.ValueSpec); ok {
						for _, n := range vs.Names {
							r.locals[n.Name] = true
						}
					}
				}
			}
		}
		// recurse into nested blocks first
		switch v := s.(type) {
		case *ast.BlockStmt:
			r.block(v)
		case *ast.IfStmt:
			r.block(v.Body)
			if eb, ok := v.Else.(*ast.BlockStmt); ok {
				r.block(eb)
			} else if ei, ok := v.Else.(*ast.IfStmt); ok {
				tmp := r.stmts([]ast.Stmt{ei})
				if len(tmp) == 1 {
					v.Else = tmp[0]
				} else {
					v.Else = &ast.BlockStmt{List: tmp}
				}
			}
		case *ast.ForStmt:
			r.block(v.Body)
		case *ast.RangeStmt:
			r.block(v.Body)
		case *ast.SwitchStmt:
			for _, c := range v.Body.List {
				cc := c.(*ast.CaseClause)
				cc.Body = r.stmts(cc.Body)
			}
		case *ast.TypeSwitchStmt:
			for _, c := range v.Body.List {
				cc := c.(*ast.CaseClause)
				cc.Body = r.stmts(cc.Body)
			}
		}
		if r.locked {
			emit(s)
			if isLockCall(s, "Unlock", "RUnlock") {
				r.locked = false
			}
			continue
		}
		// split x op= e / x++ / x-- on a package-level x
		if sp := r.split(s); sp != nil {
			out = append(out, sp...)
			continue
		}
		head := s
		switch v := s.(type) {
		case *ast.IfStmt:
			// only the init/cond are evaluated "at" this statement
			probe := &ast.BlockStmt{}
			if v.Init != nil {
				probe.List = append(probe.List, v.Init)
			}
			probe.List = append(probe.List, &ast.ExprStmt{X: v.Cond})
			head = probe
		case *ast.ForStmt, *ast.RangeStmt, *ast.SwitchStmt, *ast.TypeSwitchStmt, *ast.BlockStmt, *ast.LabeledStmt, *ast.SelectStmt:
			head = nil
		case *ast.DeferStmt, *ast.GoStmt:
			head = nil
		}
		if head != nil && r.mentions(head) {
			out = append(out, r.yieldStmt(s.Pos()))
		}
		emit(s)
	}
	return out
}

func (r *rewriter) split(s ast.Stmt) []ast.Stmt {
	var lhs ast.Expr
	var rhs ast.Expr
	var op token.Token
	switch v := s.(type) {
	case *ast.IncDecStmt:
		lhs, rhs = v.X, &ast.BasicLit{Kind: token.INT, Value: "1"}
		op = token.ADD
		if v.Tok == token.DEC {
			op = token.SUB
		}
	case *ast.AssignStmt:
		if len(v.Lhs) != 1 || len(v.Rhs) != 1 {
			return nil
		}
		switch v.Tok {
		case token.ADD_ASSIGN:
			op = token.ADD
		case token.SUB_ASSIGN:
			op = token.SUB
		case token.MUL_ASSIGN:
			op = token.MUL
		case token.OR_ASSIGN:
			op = token.OR
		case token.AND_ASSIGN:
			op = token.AND
		case token.XOR_ASSIGN:
			op = token.XOR
		default:
			return nil
		}
		lhs, rhs = v.Lhs[0], v.Rhs[0]
	default:
		return nil
	}
	id, ok := lhs.(*ast.Ident)
	if !ok || !r.isPkgVar(id) {
		return nil
	}
	r.tmpN++
	r.splits++
	tmp := ast.NewIdent(fmt.Sprintf("simyieldTmp%d", r.tmpN))
	return []ast.Stmt{
		r.yieldStmt(s.Pos()),
		&ast.AssignStmt{Lhs: []ast.Expr{tmp}, Tok: token.DEFINE, Rhs: []ast.Expr{ast.NewIdent(id.Name)}},
		r.yieldStmt(s.Pos()),
		&ast.AssignStmt{Lhs: []ast.Expr{ast.NewIdent(id.Name)}, Tok: token.ASSIGN, Rhs: []ast.Expr{&ast.BinaryExpr{X: tmp, Op: op, Y: &ast.ParenExpr{X: rhs}}}},
	}
}

func addImport(f *ast.File, path string) {
	for _, im := range f.Imports {
		if im.Path.Value == fmt.Sprintf("%q", path) {
			return
		}
	}
	spec := &ast.ImportSpec{Path: &ast.BasicLit{Kind: token.STRING, Value: fmt.Sprintf("%q", path)}}
	for _, d := range f.Decls {
		if gd, ok := d.(*ast.GenDecl); ok && gd.Tok == token.IMPORT {
			gd.Specs = append(gd.Specs, spec)
			if !gd.Lparen.IsValid() {
				gd.Lparen = gd.Pos()
			}
			f.Imports = append(f.Imports, spec)
			return
		}
	}
	gd := &ast.GenDecl{Tok: token.IMPORT, Specs: []ast.Spec{spec}}
	f.Decls = append([]ast.Decl{gd}, f.Decls...)
	f.Imports = append(f.Imports, spec)
}
