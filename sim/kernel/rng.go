// Package kernel is the deterministic-simulation core shared by every check:
// seeded generator, plan (= replay file), tape, scheduler, event log, shrinker
// and the test-binary driver. Running a plan draws no random number and reads no
// real clock; only plan *generation* uses the seeded generator.
package kernel

import (
	"math/rand/v2"
)

// Rng is the single source of randomness for plan generation.
type Rng struct{ r *rand.Rand }

func NewRng(seed uint64) *Rng {
	return &Rng{r: rand.New(rand.NewPCG(seed, 0x9e3779b97f4a7c15^seed<<1))}
}

func (g *Rng) U64() uint64       { return g.r.Uint64() }
func (g *Rng) U32() uint32       { return g.r.Uint32() }
func (g *Rng) Intn(n int) int    { return g.r.IntN(n) }
func (g *Rng) I64n(n int64) int64 { return g.r.Int64N(n) }
func (g *Rng) Range(lo, hi int) int { // inclusive
	if hi <= lo {
		return lo
	}
	return lo + g.r.IntN(hi-lo+1)
}
func (g *Rng) Bool(p float64) bool { return g.r.Float64() < p }
func (g *Rng) F64() float64        { return g.r.Float64() }

// Pick returns an index chosen with the given integer weights.
func (g *Rng) Pick(w ...int) int {
	t := 0
	for _, x := range w {
		t += x
	}
	if t <= 0 {
		return 0
	}
	k := g.r.IntN(t)
	for i, x := range w {
		if k < x {
			return i
		}
		k -= x
	}
	return len(w) - 1
}

func (g *Rng) OneOf(xs ...int64) int64 { return xs[g.r.IntN(len(xs))] }

// Fill returns n deterministic bytes that depend only on (n, seed).
// Every generated payload is described in a plan by (length, seed) so replay
// files stay small.
func Fill(n int, seed uint64) []byte {
	b := make([]byte, n)
	x := seed*0x9e3779b97f4a7c15 + 0x632be59bd9b4e019
	if x == 0 {
		x = 1
	}
	i := 0
	for i+8 <= n {
		x ^= x << 13
		x ^= x >> 7
		x ^= x << 17
		b[i] = byte(x)
		b[i+1] = byte(x >> 8)
		b[i+2] = byte(x >> 16)
		b[i+3] = byte(x >> 24)
		b[i+4] = byte(x >> 32)
		b[i+5] = byte(x >> 40)
		b[i+6] = byte(x >> 48)
		b[i+7] = byte(x >> 56)
		i += 8
	}
	for ; i < n; i++ {
		x ^= x << 13
		x ^= x >> 7
		x ^= x << 17
		b[i] = byte(x)
	}
	return b
}
