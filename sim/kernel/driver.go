package kernel

import (
	"runtime"
	"encoding/binary"
	"encoding/json"
	"fmt"
	"os"
	"os/exec"
	"path/filepath"
	"regexp"
	"sort"
	"strconv"
	"strings"
	"testing"
	"testing/synctest"
	"time"
)

// Result is the outcome of running one plan.
type Result struct {
	Key        string           `json:"key"` // "" = property held
	Detail     string           `json:"detail,omitempty"`
	Hash       string           `json:"hash"`
	Inter      uint64           `json:"inter"`
	State      uint64           `json:"state"`
	Stats      map[string]int64 `json:"stats,omitempty"`
	SimTimeMs  int64            `json:"sim_ms"`
	Nontrivial bool             `json:"nontrivial"`
	Invalid    bool             `json:"invalid,omitempty"` // plan is not a meaningful case (shrink candidates)
	// RaceKey / RaceDetail carry the race detector's report for this run (race
	// engine). It is a violation of its own next to Key.
	RaceKey    string `json:"race_key,omitempty"`
	RaceDetail string `json:"race_detail,omitempty"`
	// Evals is the number of executions this result stands for (fault
	// enumeration runs many fault positions for one workload plan).
	Evals int64 `json:"evals,omitempty"`
	// SubPlan, when set on a violation, is the specific single-fault plan that
	// failed inside an enumeration; it is what gets saved, shrunk and replayed.
	SubPlan *Plan `json:"-"`
	// NontrivialKeys are hashes of the distinct non-trivial cases covered (for
	// enumerating plans); empty means the plan body hash is used.
	NontrivialKeys []uint64 `json:"-"`
	Tail       []string         `json:"tail,omitempty"`
}

func (r *Result) Stat(k string, d int64) {
	if r.Stats == nil {
		r.Stats = map[string]int64{}
	}
	r.Stats[k] += d
}

func (r *Result) Fail(key, format string, a ...any) *Result {
	if r.Key == "" {
		r.Key = key
		r.Detail = fmt.Sprintf(format, a...)
	}
	return r
}

// Check is what a property's package hands to the driver.
type Check struct {
	ID     string
	Bubble bool // every run executes inside a testing/synctest bubble
	Race   bool // binary is built with -race; verdict includes the detector's reports
	Gen    func(g *Rng, seed uint64, tier string) *Plan
	Run    func(p *Plan) *Result
	// Simpler lists, per cfg key, values to try when shrinking (simplest first).
	Simpler map[string][]int64
	// Probes are fixed plans for known findings / regression cases: name -> plan.
	Probes func() map[string]*Plan
	// IgnoreBubbleLeak: a goroutine of the code under test that is still blocked
	// when the bubble ends (e.g. a sampler that does not exit after Close) is
	// counted, not treated as harness trouble, when the statement is silent on it.
	IgnoreBubbleLeak bool
	// ResetPools empties the process's sync.Pools (two collections) before each
	// run of a search worker.
	ResetPools bool
	// LibPaths are path fragments identifying code under test in race reports.
	LibPaths []string
}

func envInt(k string, d int64) int64 {
	if v := os.Getenv(k); v != "" {
		if n, err := strconv.ParseInt(v, 10, 64); err == nil {
			return n
		}
	}
	return d
}

func envU64(k string, d uint64) uint64 {
	if v := os.Getenv(k); v != "" {
		if n, err := strconv.ParseUint(v, 10, 64); err == nil {
			return n
		}
	}
	return d
}

// runOne executes one plan, in a bubble if the check asks for one, converting
// panics of the harness itself into harness/ keys (exit 2 class).
func runOne(t *testing.T, c *Check, p *Plan) (res *Result) {
	var inner *Result
	defer func() {
		if r := recover(); r != nil {
			// A bubble that ends with goroutines still blocked panics. If the
			// run had already reached a verdict (e.g. a task blocked forever
			// inside the library was reported as a violation), keep it.
			if inner != nil && inner.Key != "" && !strings.HasPrefix(inner.Key, "harness/") {
				inner.Detail += fmt.Sprintf("\n(bubble ended with: %v)", r)
				res = inner
				if res.Hash == "" {
					res.Hash = HashBytes([]byte(res.Key))
				}
				if res.Evals == 0 {
					res.Evals = 1
				}
				return
			}
			if c.IgnoreBubbleLeak && inner != nil && inner.Key == "" && strings.Contains(fmt.Sprint(r), "blocked goroutines remain") {
				inner.Stat("goroutines_left_blocked_at_end_of_run", 1)
				res = inner
				if res.Hash == "" {
					res.Hash = HashBytes([]byte("held"))
				}
				if res.Evals == 0 {
					res.Evals = 1
				}
				return
			}
			res = &Result{Key: "harness/panic", Detail: fmt.Sprint(r), Evals: 1}
		}
	}()
	if c.ResetPools {
		// two collections empty every sync.Pool of the process: what an earlier
		// run (of a defective library) left in a process-wide pool cannot reach
		// this run, so a violation found here is reproducible from its plan alone
		runtime.GC()
		runtime.GC()
	}
	if c.Bubble {
		synctest.Test(t, func(t *testing.T) { inner = c.Run(p); res = inner })
	} else {
		res = c.Run(p)
	}
	if res == nil {
		res = &Result{Key: "harness/nil-result"}
	}
	if res.Hash == "" {
		res.Hash = HashBytes([]byte(res.Key + "|" + res.Detail))
	}
	if res.Evals == 0 {
		res.Evals = 1
	}
	return res
}

type workerOut struct {
	Worker     int              `json:"worker"`
	Runs       int64            `json:"runs"`
	Nontrivial int64            `json:"nontrivial"`
	Invalid    int64            `json:"invalid"`
	SimMs      int64            `json:"sim_ms"`
	Stats      map[string]int64 `json:"stats"`
	Samples    []*Plan          `json:"samples"`
	FirstSeed  uint64           `json:"first_seed"`
	LastSeed   uint64           `json:"last_seed"`
	WallMs     int64            `json:"wall_ms"`
	Violations []violOut        `json:"violations"`
	Harness    string           `json:"harness,omitempty"`
}

type violOut struct {
	Key    string `json:"key"`
	Detail string `json:"detail"`
	Plan   string `json:"plan"`
	Seed   uint64 `json:"seed"`
}

var raceLog string
var raceOff int64

// raceDelta returns the race reports written since the last call.
func raceDelta() string {
	if raceLog == "" {
		return ""
	}
	m, _ := filepath.Glob(raceLog + ".*")
	sort.Strings(m)
	var sb strings.Builder
	var total int64
	for _, f := range m {
		b, err := os.ReadFile(f)
		if err == nil {
			total += int64(len(b))
			sb.Write(b)
		}
	}
	all := sb.String()
	if total <= raceOff {
		return ""
	}
	d := all[raceOff:]
	raceOff = total
	return d
}

var frameRe = regexp.MustCompile(`^\s+(/\S+\.go):(\d+)`)

// RaceKey classifies a race report: the first frame outside the Go
// distribution of each of the two access stacks must lie in the code under
// test; otherwise the report is harness trouble.
func RaceKey(report string, libPaths []string) (key string, lib bool) {
	secs := []string{}
	cur := -1
	lines := strings.Split(report, "\n")
	tops := []string{}
	for _, ln := range lines {
		if strings.Contains(ln, " by goroutine ") || strings.Contains(ln, " by main goroutine") {
			if strings.HasPrefix(strings.TrimSpace(ln), "Goroutine") {
				cur = -1
				continue
			}
			secs = append(secs, ln)
			cur = len(secs) - 1
			tops = append(tops, "")
			continue
		}
		if strings.HasPrefix(strings.TrimSpace(ln), "Goroutine ") {
			cur = -1
		}
		if cur >= 0 && tops[cur] == "" {
			if m := frameRe.FindStringSubmatch(ln); m != nil {
				f := m[1]
				if strings.Contains(f, "/veriftools/") || strings.Contains(f, "/go/src/") || strings.Contains(f, "/usr/local/go/") {
					continue
				}
				parts := strings.Split(f, "/")
				if len(parts) > 2 {
					parts = parts[len(parts)-2:]
				}
				// the key names files, not lines: which of several racing line
				// pairs on the same variable is reported first may differ
				// between the search process and a fresh replay process
				tops[cur] = strings.Join(parts, "/") + "|" + f + ":" + m[2]
			}
		}
		if len(secs) == 2 && tops[1] != "" {
			break
		}
	}
	if len(tops) < 2 {
		return "harness/race-unparsed", false
	}
	lib = true
	short := []string{}
	for _, tp := range tops[:2] {
		sp := strings.SplitN(tp, "|", 2)
		short = append(short, sp[0])
		isLib := false
		if len(sp) == 2 {
			for _, lp := range libPaths {
				if strings.Contains(sp[1], lp) {
					isLib = true
				}
			}
		}
		if !isLib {
			lib = false
		}
	}
	sort.Strings(short)
	if !lib {
		return "harness/race:" + short[0] + "~" + short[1], false
	}
	return "race:" + short[0] + "~" + short[1], true
}

func finishRace(c *Check, res *Result) {
	if !c.Race {
		return
	}
	d := raceDelta()
	if d == "" {
		return
	}
	reports := strings.Split(d, "==================")
	for _, r := range reports {
		if !strings.Contains(r, "DATA RACE") {
			continue
		}
		key, _ := RaceKey(r, c.LibPaths)
		if len(r) > 3000 {
			r = r[:3000]
		}
		if strings.HasPrefix(key, "harness/") {
			// a race inside the harness itself: harness trouble, never a verdict
			if res.Key == "" || !strings.HasPrefix(res.Key, "harness/") {
				res.Key, res.Detail = key, r
			}
			continue
		}
		if res.RaceKey == "" {
			res.RaceKey, res.RaceDetail = key, r
		}
	}
}

// Matches reports whether the result shows the violation class key (either as
// the oracle's verdict or as the race detector's).
func (r *Result) Matches(key string) bool {
	return key != "" && (r.Key == key || r.RaceKey == key)
}

// Drive is the body of each check package's single test function. The runner
// talks to it through environment variables and files; it never decides exit
// codes beyond "the test binary itself worked".
func Drive(t *testing.T, c *Check) {
	mode := os.Getenv("VERIF_MODE")
	out := os.Getenv("VERIF_OUT")
	tier := os.Getenv("VERIF_TIER")
	if tier == "" {
		tier = "quick"
	}
	if lp := os.Getenv("VERIF_LIBPATH"); lp != "" {
		c.LibPaths = append(c.LibPaths, lp)
	}
	if c.Race {
		gr := os.Getenv("GORACE")
		for _, f := range strings.Fields(gr) {
			if strings.HasPrefix(f, "log_path=") {
				raceLog = strings.TrimPrefix(f, "log_path=")
			}
		}
	}
	switch mode {
	case "", "selftest":
		// plain `go test`: a handful of seeds, fail the test on any violation
		for s := uint64(1); s <= 20; s++ {
			p := c.Gen(NewRng(s), s, tier)
			r := runOne(t, c, p)
			finishRace(c, r)
			if r.Key != "" || r.RaceKey != "" {
				t.Fatalf("seed %d: %s %s: %s %s", s, r.Key, r.RaceKey, r.Detail, r.RaceDetail)
			}
		}
	case "search":
		search(t, c, tier, out)
	case "replay":
		p, err := LoadPlan(os.Getenv("VERIF_PLAN"))
		if err != nil {
			t.Fatal(err)
		}
		r := runOne(t, c, p)
		finishRace(c, r)
		b, _ := json.MarshalIndent(r, "", " ")
		if err := os.WriteFile(os.Getenv("VERIF_RESULT"), b, 0o644); err != nil {
			t.Fatal(err)
		}
	case "shrink":
		p, err := LoadPlan(os.Getenv("VERIF_PLAN"))
		if err != nil {
			t.Fatal(err)
		}
		key := os.Getenv("VERIF_KEY")
		try := func(q *Plan) string {
			if r := runOne(t, c, q); r.Matches(key) {
				return key
			}
			return ""
		}
		if c.Race {
			// the detector reports a race once per process: every candidate
			// runs in a fresh process
			try = func(q *Plan) string {
				if r := replayFresh(q, out); r != nil && r.Matches(key) {
					return key
				}
				return ""
			}
		}
		budget := time.Duration(envInt("VERIF_SHRINK_MS", 60000)) * time.Millisecond
		min, runs := Shrink(p, key, try, c.Simpler, budget, int(envInt("VERIF_SHRINK_RUNS", 4000)))
		var r *Result
		if c.Race {
			r = replayFresh(min, out)
			if r == nil {
				r = &Result{}
			}
		} else {
			r = runOne(t, c, min)
		}
		min.Key, min.Detail, min.Hash = key, r.Detail, r.Hash
		if r.RaceKey == key {
			min.Detail = r.RaceDetail
		}
		if err := min.Save(os.Getenv("VERIF_RESULT")); err != nil {
			t.Fatal(err)
		}
		fmt.Printf("shrink: %d candidate runs, ops %d->%d, tape %d->%d, faults %d->%d\n", runs, len(p.Ops), len(min.Ops), len(p.Tape), len(min.Tape), len(p.Faults), len(min.Faults))
	case "probes":
		// run the fixed probe plans; result: name -> key
		res := map[string]*Result{}
		if c.Probes != nil {
			pr := c.Probes()
			names := make([]string, 0, len(pr))
			for n := range pr {
				names = append(names, n)
			}
			sort.Strings(names)
			for _, n := range names {
				r := runOne(t, c, pr[n])
				finishRace(c, r)
				res[n] = r
				if out != "" {
					pr[n].Key, pr[n].Detail, pr[n].Hash = r.Key, r.Detail, r.Hash
					pr[n].Save(filepath.Join(out, "probe-"+n+".json"))
				}
			}
		}
		b, _ := json.MarshalIndent(res, "", " ")
		if err := os.WriteFile(os.Getenv("VERIF_RESULT"), b, 0o644); err != nil {
			t.Fatal(err)
		}
	case "hashes":
		s0 := envU64("VERIF_SEED0", 1)
		n := envInt("VERIF_COUNT", 100)
		for i := int64(0); i < n; i++ {
			s := s0 + uint64(i)
			p := c.Gen(NewRng(s), s, tier)
			r := runOne(t, c, p)
			finishRace(c, r)
			fmt.Printf("H %d %016x %s %s %s\n", s, p.BodyHash(), r.Hash, r.Key, r.RaceKey)
		}
	case "dump":
		p, err := LoadPlan(os.Getenv("VERIF_PLAN"))
		if err != nil {
			t.Fatal(err)
		}
		r := runOne(t, c, p)
		b, _ := json.MarshalIndent(r, "", " ")
		fmt.Println(string(b))
	case "gen":
		s := envU64("VERIF_SEED0", 1)
		p := c.Gen(NewRng(s), s, tier)
		fmt.Println(string(p.JSON()))
	default:
		t.Fatalf("unknown VERIF_MODE %q", mode)
	}
}

func replayFresh(q *Plan, dir string) *Result {
	pf := filepath.Join(dir, fmt.Sprintf("cand-%d.json", time.Now().UnixNano()))
	rf := pf + ".res"
	defer os.Remove(pf)
	defer os.Remove(rf)
	if err := q.Save(pf); err != nil {
		return nil
	}
	cmd := exec.Command(os.Args[0], "-test.run", "TestCheck", "-test.count", "1", "-test.timeout", "10m")
	lp := filepath.Join(dir, fmt.Sprintf("race-cand-%d", time.Now().UnixNano()))
	cmd.Env = append(os.Environ(), "VERIF_MODE=replay", "VERIF_PLAN="+pf, "VERIF_RESULT="+rf, "GORACE=halt_on_error=0 log_path="+lp)
	cmd.Run()
	defer func() {
		m, _ := filepath.Glob(lp + ".*")
		for _, f := range m {
			os.Remove(f)
		}
	}()
	b, err := os.ReadFile(rf)
	if err != nil {
		return nil
	}
	r := &Result{}
	if json.Unmarshal(b, r) != nil {
		return nil
	}
	return r
}

func search(t *testing.T, c *Check, tier, out string) {
	seed0 := envU64("VERIF_SEED0", 1)
	stride := envU64("VERIF_STRIDE", 1)
	count := envInt("VERIF_COUNT", 1000)
	budget := time.Duration(envInt("VERIF_BUDGET_MS", 3600000)) * time.Millisecond
	worker := int(envInt("VERIF_WORKER", 0))
	maxViol := int(envInt("VERIF_MAXVIOL", 4))
	skip := map[string]bool{}
	for _, k := range strings.Split(os.Getenv("VERIF_SKIPKEYS"), ";") {
		if k != "" {
			skip[k] = true
		}
	}
	wo := &workerOut{Worker: worker, Stats: map[string]int64{}, FirstSeed: seed0}
	start := time.Now() // wall clock: effort accounting only
	hashes := make([]byte, 0, 8*1024)
	inters := make([]byte, 0, 8*1024)
	states := make([]byte, 0, 8*1024)
	seenKeys := map[string]bool{}
	// watchdog: a plan that does not come back is harness trouble (exit 2 class)
	progress := make(chan struct{}, 1)
	var curSeed uint64
	go func() {
		lim := time.Duration(envInt("VERIF_WATCHDOG_MS", 600000)) * time.Millisecond
		for {
			select {
			case <-progress:
			case <-time.After(lim):
				fmt.Fprintf(os.Stderr, "WATCHDOG: worker %d stuck on seed %d\n", worker, curSeed)
				os.Exit(3)
			}
		}
	}()
	for i := int64(0); i < count; i++ {
		if time.Since(start) > budget {
			break
		}
		s := seed0 + uint64(i)*stride
		curSeed = s
		p := c.Gen(NewRng(s), s, tier)
		r := runOne(t, c, p)
		finishRace(c, r)
		select {
		case progress <- struct{}{}:
		default:
		}
		wo.Runs += r.Evals
		wo.LastSeed = s
		if r.SubPlan != nil && r.Key != "" {
			p = r.SubPlan
		}
		wo.SimMs += r.SimTimeMs
		for k, v := range r.Stats {
			wo.Stats[k] += v
		}
		if r.Invalid {
			wo.Invalid++
		}
		if r.Nontrivial {
			if len(r.NontrivialKeys) > 0 {
				wo.Nontrivial += int64(len(r.NontrivialKeys))
				for _, h := range r.NontrivialKeys {
					hashes = binary.LittleEndian.AppendUint64(hashes, h)
				}
			} else {
				wo.Nontrivial++
				hashes = binary.LittleEndian.AppendUint64(hashes, p.BodyHash())
			}
		}
		inters = binary.LittleEndian.AppendUint64(inters, r.Inter)
		states = binary.LittleEndian.AppendUint64(states, r.State)
		if len(wo.Samples) < 2 && r.Nontrivial && len(p.JSON()) < 6000 {
			wo.Samples = append(wo.Samples, p)
		}
		if r.Key == "harness/step-limit" {
			// the plan needs more scheduler steps than the bound (an
			// implementation with finer-grained transport writes): skipped and
			// counted, the runner decides whether too many were skipped
			wo.Stats["plans_over_step_limit"]++
			wo.Invalid++
			continue
		}
		stop := false
		for vi, vk := range []string{r.Key, r.RaceKey} {
			if vk == "" {
				continue
			}
			det := r.Detail
			if vi == 1 {
				det = r.RaceDetail
			}
			if strings.HasPrefix(vk, "harness/") {
				wo.Harness = vk + ": " + det
				p.Key, p.Detail = vk, det
				p.Save(filepath.Join(out, fmt.Sprintf("harness-%d.json", worker)))
				stop = true
				break
			}
			if skip[vk] {
				wo.Stats["known_finding_hits:"+vk]++
				continue
			}
			if !seenKeys[vk] {
				seenKeys[vk] = true
				q := p.Clone()
				q.Key, q.Detail, q.Hash = vk, det, r.Hash
				pf := filepath.Join(out, fmt.Sprintf("viol-%d-%d.json", worker, len(wo.Violations)))
				q.Save(pf)
				wo.Violations = append(wo.Violations, violOut{Key: vk, Detail: det, Plan: pf, Seed: s})
			}
		}
		if stop || len(wo.Violations) >= maxViol {
			break
		}
	}
	wo.WallMs = time.Since(start).Milliseconds()
	b, _ := json.Marshal(wo)
	os.WriteFile(filepath.Join(out, fmt.Sprintf("worker-%d.json", worker)), b, 0o644)
	os.WriteFile(filepath.Join(out, fmt.Sprintf("worker-%d.plans", worker)), hashes, 0o644)
	os.WriteFile(filepath.Join(out, fmt.Sprintf("worker-%d.inters", worker)), inters, 0o644)
	os.WriteFile(filepath.Join(out, fmt.Sprintf("worker-%d.states", worker)), states, 0o644)
}
