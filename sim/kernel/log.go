package kernel

import (
	"fmt"
	"hash/fnv"
)

// Event is one entry of the totally ordered event log. Seq is the global
// sequence number, Step the scheduler step during which it was produced.
type Event struct {
	Seq  int
	Step int
	Task int
	Kind string
	Data string
}

func (e Event) String() string {
	return fmt.Sprintf("#%d s%d t%d %s %s", e.Seq, e.Step, e.Task, e.Kind, e.Data)
}

// Log is appended by the scheduler only (tasks hand their events over when they
// park). Logging draws nothing and reads no clock.
type Log struct {
	Events []Event
	Keep   int // max events kept verbatim (all are hashed)
	n      int
	h      uint64
	ih     uint64 // interleaving hash: (task, kind) only
}

func NewLog(keep int) *Log {
	h := fnv.New64a()
	return &Log{Keep: keep, h: h.Sum64(), ih: h.Sum64()}
}

func mix(h uint64, s string) uint64 {
	const prime = 1099511628211
	for i := 0; i < len(s); i++ {
		h ^= uint64(s[i])
		h *= prime
	}
	h ^= 0xff
	h *= prime
	return h
}

//go:norace
func (l *Log) add(step, task int, kind, data string) {
	e := Event{Seq: l.n, Step: step, Task: task, Kind: kind, Data: data}
	l.n++
	l.h = mix(mix(mix(l.h, string(rune('A'+task))), kind), data)
	l.ih = mix(mix(l.ih, string(rune('A'+task))), kind)
	if len(l.Events) < l.Keep {
		l.Events = append(l.Events, e)
	}
}

// addSched records a scheduling decision (which task was released from which
// gate): it feeds both hashes but is not kept verbatim.
//
//go:norace
func (l *Log) addSched(step, task int, point string) {
	l.h = mix(mix(l.h, string(rune('a'+task))), point)
	l.ih = mix(mix(l.ih, string(rune('a'+task))), point)
}

func (l *Log) Len() int            { return l.n }
func (l *Log) Hash() string        { return fmt.Sprintf("%016x", l.h) }
func (l *Log) Interleaving() uint64 { return l.ih }

func (l *Log) Tail(n int) []string {
	ev := l.Events
	if len(ev) > n {
		ev = ev[len(ev)-n:]
	}
	out := make([]string, len(ev))
	for i, e := range ev {
		out[i] = e.String()
	}
	return out
}
