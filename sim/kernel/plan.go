package kernel

import (
	"crypto/sha256"
	"encoding/hex"
	"encoding/json"
	"os"
)

// Op is one workload step. Its meaning belongs to the check; every argument is
// explicit so that a plan is self-contained.
type Op struct {
	K string   `json:"k"`           // kind
	T int      `json:"t,omitempty"` // task / endpoint / stream it belongs to
	N []int64  `json:"n,omitempty"` // numeric arguments
	S []string `json:"s,omitempty"` // string arguments
}

// Fault is one injected fault bound to a position of the run.
type Fault struct {
	K   string `json:"k"`             // kind: cut, rerr, werr, short, close, stall, ...
	W   string `json:"w,omitempty"`   // where: direction / disk / source name
	At  int64  `json:"at"`            // byte offset, call index, scheduler step or sim time
	Arg int64  `json:"arg,omitempty"` // kind-specific (partial count, duration, ...)
}

// Plan is the complete description of one simulated run and, minimised, the
// replay file of a violation.
type Plan struct {
	Property string           `json:"property"`
	Seed     uint64           `json:"seed"`
	Variant  string           `json:"variant,omitempty"`
	Cfg      map[string]int64 `json:"cfg,omitempty"`
	Ops      []Op             `json:"ops,omitempty"`
	Tape     []uint32         `json:"tape,omitempty"`
	TapeSeed uint64           `json:"tape_seed,omitempty"` // 0: zeros after the explicit tape
	Faults   []Fault          `json:"faults,omitempty"`
	// filled in on a violation report
	Key    string `json:"violation_key,omitempty"`
	Detail string `json:"violation_detail,omitempty"`
	Hash   string `json:"event_log_hash,omitempty"`
}

func (p *Plan) C(k string) int64 { return p.Cfg[k] }
func (p *Plan) CD(k string, d int64) int64 {
	if v, ok := p.Cfg[k]; ok {
		return v
	}
	return d
}

func (p *Plan) Clone() *Plan {
	q := *p
	q.Cfg = map[string]int64{}
	for k, v := range p.Cfg {
		q.Cfg[k] = v
	}
	q.Ops = make([]Op, len(p.Ops))
	for i, o := range p.Ops {
		o.N = append([]int64(nil), o.N...)
		o.S = append([]string(nil), o.S...)
		q.Ops[i] = o
	}
	q.Tape = append([]uint32(nil), p.Tape...)
	q.Faults = append([]Fault(nil), p.Faults...)
	return &q
}

// BodyHash identifies the plan independent of its seed and report fields.
func (p *Plan) BodyHash() uint64 {
	q := *p
	q.Seed, q.Key, q.Detail, q.Hash = 0, "", "", ""
	b, _ := json.Marshal(&q)
	h := sha256.Sum256(b)
	var x uint64
	for i := 0; i < 8; i++ {
		x = x<<8 | uint64(h[i])
	}
	return x
}

func (p *Plan) JSON() []byte {
	b, _ := json.MarshalIndent(p, "", " ")
	return b
}

func (p *Plan) Save(path string) error { return os.WriteFile(path, append(p.JSON(), '\n'), 0o644) }

func LoadPlan(path string) (*Plan, error) {
	b, err := os.ReadFile(path)
	if err != nil {
		return nil, err
	}
	p := &Plan{}
	if err := json.Unmarshal(b, p); err != nil {
		return nil, err
	}
	if p.Cfg == nil {
		p.Cfg = map[string]int64{}
	}
	return p, nil
}

func HashBytes(b []byte) string {
	h := sha256.Sum256(b)
	return hex.EncodeToString(h[:8])
}

// Tape turns the plan's list of small integers into decisions. Decision k among
// n alternatives is tape[k] mod n; 0 is always the simplest alternative. After
// the explicit tape the values come from a xorshift stream seeded by TapeSeed
// (all zeros when TapeSeed is 0).
type Tape struct {
	v    []uint32
	pos  int
	x    uint64
	Used int
}

func NewTape(p *Plan) *Tape { return &Tape{v: p.Tape, x: p.TapeSeed} }

//go:norace
func (t *Tape) raw() uint32 {
	t.Used++
	if t.pos < len(t.v) {
		r := t.v[t.pos]
		t.pos++
		return r
	}
	if t.x == 0 {
		return 0
	}
	t.x ^= t.x << 13
	t.x ^= t.x >> 7
	t.x ^= t.x << 17
	return uint32(t.x >> 20)
}

// Next picks one of n alternatives (n >= 1).
//
//go:norace
func (t *Tape) Next(n int) int {
	if n <= 1 {
		return 0
	}
	return int(t.raw() % uint32(n))
}

// GenTape draws an explicit tape of the given length with the given bias
// towards 0 (simple choices), plus a continuation seed.
func GenTape(g *Rng, n int, zeroBias float64) []uint32 {
	t := make([]uint32, n)
	for i := range t {
		if !g.Bool(zeroBias) {
			t[i] = g.U32() >> 8
		}
	}
	return t
}
