package kernel

import (
	"sort"
	"time"
)

// Shrink minimises a failing plan while the violation key stays the same:
// ddmin over ops and faults, tape truncation and zeroing, numeric arguments and
// configuration values towards smaller ones. try must run the candidate (in
// process, or in a fresh process for the race engine) and return its key.
func Shrink(p *Plan, key string, try func(*Plan) string, simpler map[string][]int64, budget time.Duration, maxRuns int) (*Plan, int) {
	deadline := time.Now().Add(budget) // wall clock bounds effort only, never a verdict
	runs := 0
	ok := func(c *Plan) bool {
		if runs >= maxRuns || time.Now().After(deadline) {
			return false
		}
		runs++
		return try(c) == key
	}
	best := p.Clone()
	changed := true
	for pass := 0; changed && pass < 6; pass++ {
		changed = false
		// faults
		for i := 0; i < len(best.Faults); {
			c := best.Clone()
			c.Faults = append(c.Faults[:i], c.Faults[i+1:]...)
			if ok(c) {
				best, changed = c, true
			} else {
				i++
			}
		}
		// ops: ddmin
		n := 2
		for len(best.Ops) >= 1 && n <= len(best.Ops)*2 {
			sz := (len(best.Ops) + n - 1) / n
			if sz < 1 {
				sz = 1
			}
			removed := false
			for start := 0; start < len(best.Ops); start += sz {
				end := start + sz
				if end > len(best.Ops) {
					end = len(best.Ops)
				}
				c := best.Clone()
				c.Ops = append(append([]Op(nil), c.Ops[:start]...), c.Ops[end:]...)
				if ok(c) {
					best, changed, removed = c, true, true
					if n > 2 {
						n--
					}
					break
				}
			}
			if !removed {
				if sz == 1 {
					break
				}
				n *= 2
			}
		}
		// tape: seed off, truncate, zero blocks
		if best.TapeSeed != 0 {
			c := best.Clone()
			c.TapeSeed = 0
			if ok(c) {
				best, changed = c, true
			}
		}
		for len(best.Tape) > 0 {
			c := best.Clone()
			c.Tape = c.Tape[:len(c.Tape)/2]
			if ok(c) {
				best, changed = c, true
			} else {
				break
			}
		}
		for blk := len(best.Tape); blk >= 1; blk /= 2 {
			for start := 0; start < len(best.Tape); start += blk {
				end := start + blk
				if end > len(best.Tape) {
					end = len(best.Tape)
				}
				nz := false
				for _, v := range best.Tape[start:end] {
					if v != 0 {
						nz = true
					}
				}
				if !nz {
					continue
				}
				c := best.Clone()
				for i := start; i < end; i++ {
					c.Tape[i] = 0
				}
				if ok(c) {
					best, changed = c, true
				}
			}
			if blk == 1 {
				break
			}
		}
		// drop trailing zeros of the tape (equivalent by construction)
		for len(best.Tape) > 0 && best.Tape[len(best.Tape)-1] == 0 && best.TapeSeed == 0 {
			best.Tape = best.Tape[:len(best.Tape)-1]
		}
		// cfg values
		keys := make([]string, 0, len(best.Cfg))
		for k := range best.Cfg {
			keys = append(keys, k)
		}
		sort.Strings(keys)
		for _, k := range keys {
			for _, v := range simpler[k] {
				if best.Cfg[k] == v {
					break
				}
				c := best.Clone()
				c.Cfg[k] = v
				if ok(c) {
					best, changed = c, true
					break
				}
			}
		}
		// numeric op arguments
		for i := range best.Ops {
			for j := range best.Ops[i].N {
				v := best.Ops[i].N[j]
				for _, cand := range []int64{0, 1, v / 2, v - 1} {
					if cand >= v || cand < 0 {
						continue
					}
					c := best.Clone()
					c.Ops[i].N[j] = cand
					if ok(c) {
						best, changed = c, true
						break
					}
				}
			}
		}
		// fault positions
		for i := range best.Faults {
			v := best.Faults[i].At
			for _, cand := range []int64{0, v / 2, v - 1} {
				if cand >= v || cand < 0 {
					continue
				}
				c := best.Clone()
				c.Faults[i].At = cand
				if ok(c) {
					best, changed = c, true
					break
				}
			}
		}
	}
	return best, runs
}
