package kernel

import (
	"syscall"
	"time"
	"unsafe"
)

// Raw futex gates. Everything here is //go:norace and uses plain loads/stores
// plus the futex system call, so that parking and releasing a task creates no
// happens-before edge the race detector can see: its verdict then depends only
// on the synchronisation of the code under test (and of the sim transport's
// per-direction mutex, which stands in for the kernel socket).

const (
	futexWaitOp = 0
	futexWakeOp = 1
)

//go:norace
func futexWait(addr *uint32, val uint32) {
	syscall.Syscall6(syscall.SYS_FUTEX, uintptr(unsafe.Pointer(addr)), futexWaitOp, uintptr(val), 0, 0, 0)
}

//go:norace
func futexWake(addr *uint32) {
	syscall.Syscall6(syscall.SYS_FUTEX, uintptr(unsafe.Pointer(addr)), futexWakeOp, 1<<30, 0, 0, 0)
}

//go:norace
//go:noinline
func loadWord(addr *uint32) uint32 { return *addr }

//go:norace
//go:noinline
func storeWord(addr *uint32, v uint32) { *addr = v }

//go:norace
func waitWord(addr *uint32) {
	for loadWord(addr) == 0 {
		futexWait(addr, 0)
	}
	storeWord(addr, 0)
}

//go:norace
func signalWord(addr *uint32) {
	storeWord(addr, 1)
	futexWake(addr)
}

// waitWordFor is waitWord with a real-time limit; it reports whether the word
// was signalled. Used only to notice a task that is blocked on a real lock
// inside the code under test (see Sched.awaitArrival).
//
//go:norace
func waitWordFor(addr *uint32, d time.Duration) bool {
	deadline := time.Now().Add(d)
	for loadWord(addr) == 0 {
		left := time.Until(deadline)
		if left <= 0 {
			return false
		}
		ts := syscall.NsecToTimespec(int64(left))
		syscall.Syscall6(syscall.SYS_FUTEX, uintptr(unsafe.Pointer(addr)), futexWaitOp, 0, uintptr(unsafe.Pointer(&ts)), 0, 0)
	}
	storeWord(addr, 0)
	return true
}
