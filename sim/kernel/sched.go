package kernel

import (
	"bytes"
	"errors"
	"fmt"
	"runtime"
	"runtime/debug"
	"strconv"
	"testing/synctest"
	"time"
)

type Mode int

const (
	ModePlain  Mode = iota // tasks stop only at gates; channel gates
	ModeBubble             // inside testing/synctest: tasks may also block in the library
	ModeFutex              // race engine: raw futex gates, invisible to the race detector
)

// Cond tells the scheduler whether a parked task may be released.
// Implementations must be lock-free and //go:norace (the scheduler evaluates
// them while every task is parked).
type Cond interface{ Ready() bool }

const (
	stRunning int32 = iota
	stParked
	stDone
)

type pendingEv struct{ kind, data string }

// Task is a real goroutine running real library code; exactly one task is
// released at a time, the others sit at a gate.
type Task struct {
	ID   int
	Name string
	// LockDepth is maintained by rewritten library code (astyield): mutexes the
	// task holds right now; touched by the task itself only.
	LockDepth  int
	wasRunning bool
	late       bool
	s    *Sched

	gid    uint64
	state  int32
	cond   Cond
	point  string
	resume chan struct{}
	arrive chan struct{}
	fw     uint32 // futex word (ModeFutex)

	pending []pendingEv
	doneCh  chan struct{} // closed when the task ends: the only race-detector-visible edge, task end -> Join
	Panic   any
	Stack   string
	aborted bool
}

var ErrStuck = errors.New("no task runnable")
var ErrSteps = errors.New("step limit reached")

type abortSentinel struct{}

type stepHook struct {
	at int
	fn func()
}

type Sched struct {
	// RealBlocked counts releases after which the task did not reach its next
	// gate within RealBlockWait (futex mode; see awaitArrival).
	RealBlocked int
	Mode     Mode
	Tape     *Tape
	Log      *Log
	MaxSteps int
	Steps    int
	Tasks    []*Task
	// OnIdle is called when no task is runnable although some have not
	// finished; it returns true if it changed something (closed a transport,
	// advanced simulated time, ...). Otherwise the run ends with ErrStuck.
	OnIdle func() bool
	// AfterStep is the invariant hook, evaluated by the scheduler after every
	// step while all tasks are parked.
	AfterStep func() error

	hooks   []stepHook
	cur     *Task
	fw      uint32
	abort   bool
	started bool
	// Switches counts releases of a task different from the previous one.
	Switches int
	last     int
}

func NewSched(mode Mode, tape *Tape, maxSteps int) *Sched {
	return &Sched{Mode: mode, Tape: tape, Log: NewLog(4000), MaxSteps: maxSteps, last: -1}
}

// AtStep registers fn to run in the scheduler just before step n is chosen.
func (s *Sched) AtStep(n int, fn func()) { s.hooks = append(s.hooks, stepHook{n, fn}) }

//go:norace
func curGid() uint64 {
	var buf [64]byte
	n := runtime.Stack(buf[:], false)
	b := buf[:n]
	b = bytes.TrimPrefix(b, []byte("goroutine "))
	i := bytes.IndexByte(b, ' ')
	if i < 0 {
		return 0
	}
	g, _ := strconv.ParseUint(string(b[:i]), 10, 64)
	return g
}

// goroutineBlocked reports whether goroutine gid is parked in a blocking
// operation (mutex, channel, select, condition variable, sleep, ...) rather than
// running, runnable or in a system call. Used only after a real-time wait ran
// out, to tell a task blocked on a real lock of the code under test from one
// that is merely slow (large copies on a loaded machine).
//
//go:norace
func goroutineBlocked(gid uint64) bool {
	buf := make([]byte, 1<<20)
	for {
		n := runtime.Stack(buf, true)
		if n < len(buf) {
			buf = buf[:n]
			break
		}
		buf = make([]byte, 2*len(buf))
	}
	hdr := []byte("goroutine " + strconv.FormatUint(gid, 10) + " [")
	i := bytes.Index(buf, hdr)
	if i < 0 {
		return false
	}
	st := buf[i+len(hdr):]
	if j := bytes.IndexAny(st, ",]"); j >= 0 {
		st = st[:j]
	}
	switch string(st) {
	case "running", "runnable", "syscall", "GC assist marking", "GC assist wait", "GC sweep wait", "GC scavenge wait", "GC worker (idle)", "preempted", "copystack", "waiting":
		return false
	}
	return true
}

// CurGid is the id of the calling goroutine.
func CurGid() uint64 { return curGid() }

// Cur returns the task of the calling goroutine (nil if the caller is not a
// task, e.g. the scheduler or a library-internal goroutine).
//
//go:norace
func (s *Sched) Cur() *Task {
	g := curGid()
	for _, t := range s.Tasks {
		if t.gid == g {
			return t
		}
	}
	return nil
}

//go:norace
func (s *Sched) awaitStart(t *Task) {
	for t.state != stParked {
		waitWord(&s.fw)
	}
}

// Go creates a task. It first runs when the scheduler releases it.
func (s *Sched) Go(name string, fn func(t *Task)) *Task {
	t := &Task{ID: len(s.Tasks), Name: name, s: s, doneCh: make(chan struct{})}
	if s.Mode != ModeFutex {
		t.resume = make(chan struct{})
		t.arrive = make(chan struct{}, 1)
	}
	s.Tasks = append(s.Tasks, t)
	go t.body(fn)
	if s.Mode == ModePlain {
		<-t.arrive
	} else if s.Mode == ModeFutex {
		s.awaitStart(t)
	}
	return t
}

//go:norace
func (t *Task) body(fn func(t *Task)) {
	t.gid = curGid()
	defer t.finish()
	t.park("start", nil)
	fn(t)
}

//go:norace
func (t *Task) finish() {
	if r := recover(); r != nil {
		if _, ok := r.(abortSentinel); !ok {
			t.Panic = r
			t.Stack = string(debug.Stack())
		}
	}
	t.state = stDone
	close(t.doneCh)
	t.signalArrive()
}

//go:norace
func (t *Task) signalArrive() {
	switch t.s.Mode {
	case ModePlain:
		t.arrive <- struct{}{}
	case ModeFutex:
		signalWord(&t.s.fw)
	}
}

//go:norace
func (t *Task) park(point string, c Cond) {
	t.point = point
	t.cond = c
	t.state = stParked
	t.signalArrive()
	if t.s.Mode == ModeFutex {
		waitWord(&t.fw)
	} else {
		<-t.resume
	}
	t.cond = nil
	if t.s.abort {
		panic(abortSentinel{})
	}
}

// Yield is an unconditional gate: the task parks and continues when the
// scheduler picks it again.
func (t *Task) Yield(point string) { t.park(point, nil) }

// Block parks the task until c.Ready() holds and the scheduler picks it.
func (t *Task) Block(point string, c Cond) { t.park(point, c) }

// Ev records an event; it is appended to the global log when the task parks.
//
//go:norace
func (t *Task) Ev(kind, data string) {
	t.pending = append(t.pending, pendingEv{kind, data})
}

// Evf formats an event. In the race engine nothing is formatted: fmt uses
// sync.Pool, whose race annotations would add happens-before edges between
// tasks (and nondeterministically so, pools being per-P).
func (t *Task) Evf(kind, format string, a ...any) {
	if t.s.Mode == ModeFutex {
		t.Ev(kind, "")
		return
	}
	t.Ev(kind, fmt.Sprintf(format, a...))
}

//go:norace
func (s *Sched) flush() {
	for _, t := range s.Tasks {
		for _, e := range t.pending {
			s.Log.add(s.Steps, t.ID, e.kind, e.data)
		}
		t.pending = t.pending[:0]
	}
}

// SchedEv lets the scheduler side (fault hooks) log an event.
//
//go:norace
func (s *Sched) SchedEv(kind, data string) { s.Log.add(s.Steps, 25, kind, data) }

//go:norace
func (s *Sched) runnable() (r []*Task, unfinished int, libBlocked int) {
	for _, t := range s.Tasks {
		switch t.state {
		case stParked:
			unfinished++
			if t.cond == nil || t.cond.Ready() {
				r = append(r, t)
			}
		case stRunning:
			unfinished++
			libBlocked++
		}
	}
	return
}

// markRunning flags the tasks that are inside the library right now.
//
//go:norace
func (s *Sched) markRunning() int {
	n := 0
	for _, t := range s.Tasks {
		t.wasRunning = t.state == stRunning
		if t.wasRunning {
			n++
		}
	}
	return n
}

//go:norace
func (s *Sched) noteRelease(t *Task) { s.Log.addSched(s.Steps, t.ID, t.point) }

//go:norace
func (s *Sched) release(t *Task) {
	t.state = stRunning
	switch s.Mode {
	case ModePlain:
		if t.late {
			<-t.arrive // the arrival this task signalled after it had been given up on
			t.late = false
		}
		t.resume <- struct{}{}
	wait:
		for {
			select {
			case <-t.arrive:
				break wait
			case <-time.After(20 * RealBlockWait):
				if !goroutineBlocked(t.gid) {
					continue // slow, not blocked
				}
				// blocked on a real lock inside the library (see awaitArrival);
				// correct code never gets here: every wait of a ModePlain run is a gate
				s.RealBlocked++
				t.late = true
				break wait
			}
		}
	case ModeBubble:
		t.resume <- struct{}{}
		synctest.Wait()
	case ModeFutex:
		signalWord(&t.fw)
		s.awaitArrival(t)
	}
}

// RealBlockWait is how long (real time) the futex-mode scheduler waits for the
// released task to reach its next gate before it concludes that the task is
// blocked on a real lock of the code under test (held by a parked task: a
// sync.Once in progress, a token taken from a channel, a mutex the source
// rewrite could not see) and goes on with the other tasks. Correct code that
// never parks inside such a region never gets here; the count is reported.
var RealBlockWait = 150 * time.Millisecond

//go:norace
func (s *Sched) awaitArrival(t *Task) {
	deadline := time.Now().Add(RealBlockWait)
	for t.state == stRunning {
		left := time.Until(deadline)
		if left <= 0 {
			if !goroutineBlocked(t.gid) {
				deadline = time.Now().Add(RealBlockWait) // slow, not blocked
				continue
			}
			s.RealBlocked++
			return // still inside the library: counted as blocked there
		}
		waitWordFor(&s.fw, left)
	}
}

// waitAnyArrival waits (real time) until some task blocked inside the library
// parks or finishes.
//
//go:norace
func (s *Sched) waitAnyArrival(d time.Duration) bool {
	deadline := time.Now().Add(d)
	for {
		for _, t := range s.Tasks {
			if t.state != stRunning && t.wasRunning {
				t.wasRunning = false
				return true
			}
		}
		left := time.Until(deadline)
		if left <= 0 {
			return false
		}
		waitWordFor(&s.fw, left)
	}
}

// Now is the current scheduler step, readable from tasks.
//
//go:norace
func (s *Sched) Now() int { return s.Steps }

// Join waits for every finished task through a real channel, so that reading
// what tasks recorded is ordered after them for the race detector too. Call it
// after Run (and Abort, if Run failed).
func (s *Sched) Join() {
	for _, t := range s.Tasks {
		if s.taskDone(t) {
			<-t.doneCh
		}
	}
}

//go:norace
func (s *Sched) taskDone(t *Task) bool { return t.state == stDone }

// Sleep advances simulated time (ModeBubble only): tasks blocked in the
// library on timers run when their timers fire.
func (s *Sched) Sleep(d time.Duration) {
	if s.Mode != ModeBubble {
		panic("Sleep outside bubble")
	}
	time.Sleep(d)
	synctest.Wait()
}

// Run drives the tasks until all have finished, the run is stuck, the step
// limit is hit or the invariant fails.
func (s *Sched) Run() error {
	if s.Mode == ModeBubble {
		synctest.Wait()
	}
	s.started = true
	for {
		s.flush()
		if s.AfterStep != nil {
			if err := s.AfterStep(); err != nil {
				return err
			}
		}
		for i := 0; i < len(s.hooks); i++ {
			if s.hooks[i].at == s.Steps {
				s.hooks[i].fn()
				if s.Mode == ModeBubble {
					synctest.Wait()
				}
				s.flush()
			}
		}
		r, unfinished, _ := s.runnable()
		if len(r) == 0 {
			if unfinished == 0 {
				return nil
			}
			if s.OnIdle != nil && s.OnIdle() {
				if s.Mode == ModeBubble {
					synctest.Wait()
				}
				continue
			}
			if s.Mode == ModeFutex && s.markRunning() > 0 && s.waitAnyArrival(20*RealBlockWait) {
				continue // a task that was blocked on a real lock has come through
			}
			if s.Mode == ModePlain && s.markRunning() > 0 {
				came := false
				for i := 0; i < 300 && !came; i++ {
					time.Sleep(10 * time.Millisecond)
					for _, t := range s.Tasks {
						if t.wasRunning && t.state != stRunning {
							came = true
						}
					}
				}
				if came {
					continue
				}
			}
			return ErrStuck
		}
		if s.Steps >= s.MaxSteps {
			return ErrSteps
		}
		t := r[s.Tape.Next(len(r))]
		s.Steps++
		if t.ID != s.last {
			s.Switches++
			s.last = t.ID
		}
		s.cur = t
		s.noteRelease(t)
		s.release(t)
	}
}

// Abort unwinds every task that has not finished (parked tasks panic with a
// private sentinel that their wrapper swallows). Tasks blocked inside the
// library must be unblocked by the caller first (close transports etc.).
func (s *Sched) Abort() {
	s.abort = true
	for round := 0; round < 1000; round++ {
		n := 0
		for _, t := range s.Tasks {
			if t.state == stParked {
				n++
				s.release(t)
			}
		}
		if n == 0 {
			break
		}
	}
	s.flush()
}

// Unfinished lists tasks that did not run to completion, with their gate.
//
//go:norace
func (s *Sched) Unfinished() []string {
	var out []string
	for _, t := range s.Tasks {
		switch t.state {
		case stParked:
			out = append(out, t.Name+"@"+t.point)
		case stRunning:
			out = append(out, t.Name+"@blocked-in-library")
		}
	}
	return out
}

// FirstPanic reports the first task that ended in a panic raised by the code
// under test.
func (s *Sched) FirstPanic() (*Task, bool) {
	for _, t := range s.Tasks {
		if t.Panic != nil {
			return t, true
		}
	}
	return nil, false
}
