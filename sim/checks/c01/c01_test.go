// C01: whatever sequence of RTMP messages one endpoint writes, the peer reads
// exactly that sequence, after the simple handshake, for every chunk size either
// side announces at any point, under every segmentation and interleaving.
package c01

import (
	"fmt"
	"io"
	"testing"

	oe "github.com/ossrs/go-oryx-lib/errors"
	"verif/sim/kernel"
	"verif/sim/ref"
	"verif/sim/rtmpx"
	"verif/sim/simnet"
)

var chunkSizes = []int64{1, 2, 127, 128, 129, 4096, 65536, 1 << 24, 1<<31 - 1}
var stamps = []int64{0, 1, 40, 0xFFFFFE, 0xFFFFFF, 0x1000000, 0x1000001, 1<<31 - 1, 1<<31 - 2}

func genLen(g *kernel.Rng, cs int64, budget int64) int64 {
	var n int64
	switch g.Pick(3, 6, 2, 2, 2) {
	case 0:
		n = 1
	case 1:
		k := int64(g.Range(1, 3))
		c := cs
		if c > 70000 {
			c = int64(g.OneOf(128, 4096, 65536))
		}
		n = k*c + int64(g.Range(-1, 1))
	case 2:
		n = g.OneOf(65535, 65536, 65537)
	case 3:
		n = int64(g.Range(1, 400))
	default:
		n = int64(g.Range(1, 20000))
	}
	if n < 1 {
		n = 1
	}
	if n > budget {
		n = 1 + n%budget
	}
	return n
}

func gen(g *kernel.Rng, seed uint64, tier string) *kernel.Plan {
	p := &kernel.Plan{Property: "C01", Seed: seed, Cfg: map[string]int64{}}
	budget := int64(200000)
	huge := g.Bool(0.004)
	small := g.Bool(0.5)
	if small {
		budget = 6000
	}
	for _, k := range []string{"rsegA", "rsegB"} {
		p.Cfg[k] = int64(g.Pick(3, 1, 3, 1, 3))
		if !small && (p.Cfg[k] == simnet.SegOne || p.Cfg[k] == simnet.SegSmall) {
			p.Cfg[k] = simnet.SegTape
		}
	}
	for _, k := range []string{"wsegA", "wsegB"} {
		p.Cfg[k] = int64([]int{simnet.SegWhole, simnet.SegChunky, simnet.SegWhole, simnet.SegTape}[g.Intn(4)])
		if small && g.Bool(0.1) {
			p.Cfg[k] = simnet.SegSmall
		}
	}
	if huge {
		for _, k := range []string{"rsegA", "rsegB", "wsegA", "wsegB"} {
			p.Cfg[k] = int64([]int{simnet.SegWhole, simnet.SegChunky}[g.Intn(2)])
		}
	}
	p.Cfg["post"] = int64(g.Pick(1, 4))
	cs := [2]int64{128, 128}
	nops := g.Range(1, 24)
	scsLeft := 4
	for i := 0; i < nops; i++ {
		e := g.Intn(2)
		if scsLeft > 0 && g.Bool(0.18) {
			scsLeft--
			c := chunkSizes[g.Intn(len(chunkSizes))]
			if g.Bool(0.2) {
				c = int64(g.Range(1, 70000))
			}
			cs[e] = c
			scsSID := int64(0) // the statement says any stream id, also for protocol-control types
			if g.Bool(0.25) {
				scsSID = g.OneOf(1, 2, 0x7FFFFFFF, int64(g.U32()>>1))
			}
			p.Ops = append(p.Ops, kernel.Op{K: "scs", T: e, N: []int64{c, scsSID}})
			continue
		}
		var typ int64
		switch g.Pick(4, 4, 3, 3, 1, 1, 2, 1, 1, 1, 1, 2) {
		case 0:
			typ = 8
		case 1:
			typ = 9
		case 2:
			typ = 18
		case 3:
			typ = 20
		case 4:
			typ = 15
		case 5:
			typ = 17
		case 6:
			typ = 4
		case 7:
			typ = 5
		case 8:
			typ = 6
		case 9:
			typ = 3
		case 10:
			typ = 2
		default:
			typ = int64(g.Range(7, 255))
		}
		sid := g.OneOf(0, 1, 1, 2, 0xFFFFFFFF, int64(g.U32()))
		ts := stamps[g.Intn(len(stamps))]
		if g.Bool(0.3) {
			ts = int64(g.U32() >> 1)
		}
		n := genLen(g, cs[e], budget)
		if huge && i == nops-1 {
			n = 1<<24 - 1
		}
		budget -= n
		if budget < 64 {
			budget = 64
		}
		p.Ops = append(p.Ops, kernel.Op{K: "msg", T: e, N: []int64{typ, sid, ts, n, int64(g.U32())}})
	}
	p.Tape = kernel.GenTape(g, g.Range(0, 200), 0.25)
	p.TapeSeed = g.U64() | 1
	return p
}

func errClass(err error) string {
	if err == nil {
		return "nil"
	}
	c := oe.Cause(err)
	switch c {
	case io.EOF:
		return "EOF"
	case io.ErrUnexpectedEOF:
		return "unexpected-EOF"
	case simnet.ErrClosed:
		return "closed"
	}
	return "other"
}

func checkDirection(res *kernel.Result, from, to *rtmpx.End) bool {
	name := from.Name + ">" + to.Name
	var sent []rtmpx.Msg
	for _, s := range from.Sent {
		if s.Err != nil {
			res.Fail("C01/write-error", "%s: write of %v failed without any fault: %v", name, s.Msg, s.Err)
			return false
		}
		sent = append(sent, s.Msg)
	}
	for i := 0; i < len(sent) && i < len(to.Recv); i++ {
		if d := sent[i].Diff(to.Recv[i]); d != "" {
			res.Fail("C01/mismatch-"+d, "%s: message %d written %v read back as %v (after %d identical messages)", name, i, sent[i], to.Recv[i], i)
			return false
		}
	}
	if len(to.Recv) > len(sent) {
		res.Fail("C01/fabricated", "%s: %d messages written, %d read; extra %v", name, len(sent), len(to.Recv), to.Recv[len(sent)])
		return false
	}
	if len(to.Recv) < len(sent) {
		res.Fail("C01/lost:"+errClass(to.RecvErr), "%s: %d messages written, only %d read, then: %v; first missing %v", name, len(sent), len(to.Recv), to.RecvErr, sent[len(to.Recv)])
		return false
	}
	if c := oe.Cause(to.RecvErr); to.RecvErr == nil || (c != io.EOF && c != io.ErrUnexpectedEOF) {
		res.Fail("C01/end-of-stream-error", "%s: after the writer's clean close the reader ended with %v (root cause should be io.EOF or io.ErrUnexpectedEOF)", name, to.RecvErr)
		return false
	}
	// wire inspection by the reference chunk parser
	wire := from.Conn.Out.Wire
	if len(wire) < rtmpx.HandshakeBytes {
		res.Fail("C01/handshake-bytes", "%s: only %d bytes on the wire", name, len(wire))
		return false
	}
	cp := ref.NewChunkParser()
	cp.Feed(wire[rtmpx.HandshakeBytes:])
	if cp.Err != nil {
		res.Fail("C01/wire-nonconformant", "%s: reference chunk parser: %v", name, cp.Err)
		return false
	}
	if cp.Pending() != 0 || cp.OpenMessages() != 0 {
		res.Fail("C01/wire-nonconformant", "%s: reference chunk parser left %d pending bytes, %d open messages (chunking disagrees with the chunk size in force)", name, cp.Pending(), cp.OpenMessages())
		return false
	}
	if len(cp.Msgs) != len(sent) {
		res.Fail("C01/wire-nonconformant", "%s: wire holds %d messages, %d written", name, len(cp.Msgs), len(sent))
		return false
	}
	for i, m := range cp.Msgs {
		w := rtmpx.Msg{Type: m.Type, SID: m.StreamID, TS: m.Timestamp, Payload: m.Payload}
		if d := sent[i].Diff(w); d != "" {
			res.Fail("C01/wire-"+d, "%s: message %d written %v is %v on the wire", name, i, sent[i], w)
			return false
		}
	}
	res.Stat("chunks_on_wire", int64(cp.Chunks))
	return true
}

func run(p *kernel.Plan) (res *kernel.Result) {
	res = &kernel.Result{}
	for _, o := range p.Ops {
		switch o.K {
		case "msg":
			if len(o.N) < 5 || o.N[3] < 1 || o.N[3] > 1<<24-1 || o.N[2] < 0 || o.N[2] >= 1<<31 || o.N[0] == 1 {
				res.Invalid = true
				return
			}
		case "scs":
			if len(o.N) < 1 || o.N[0] < 1 || o.N[0] > 1<<31-1 {
				res.Invalid = true
				return
			}
		default:
			res.Invalid = true
			return
		}
	}
	s := rtmpx.NewSession(p, kernel.ModePlain, 4000000)
	s.Run()
	s.ApplyStats(res)
	if t, ok := s.S.FirstPanic(); ok {
		return res.Fail("C01/panic", "task %s: %v\n%s", t.Name, t.Panic, t.Stack)
	}
	if s.Err == kernel.ErrSteps {
		return res.Fail("harness/step-limit", "%v", s.Err)
	}
	if s.Err != nil {
		return res.Fail("C01/no-progress", "%v: unfinished %v", s.Err, s.Stuck)
	}
	for _, e := range []*rtmpx.End{s.A, s.B} {
		if e.HsErr != nil {
			return res.Fail("C01/handshake", "%s: %v (stage %s)", e.Name, e.HsErr, e.HsStage)
		}
	}
	if !checkDirection(res, s.A, s.B) || !checkDirection(res, s.B, s.A) {
		return res
	}
	var st uint64
	for _, o := range p.Ops {
		switch o.K {
		case "scs":
			res.Stat("set_chunk_size_announced", 1)
			st = st*31 + uint64(o.N[0]%1000) + 7
		case "msg":
			res.Stat("messages", 1)
			if o.N[2] >= 0xFFFFFF {
				res.Stat("messages_extended_timestamp", 1)
			}
			if o.N[3] > 128 {
				res.Stat("messages_multi_chunk", 1)
			}
			if o.N[3] == 1<<24-1 {
				res.Stat("messages_max_length", 1)
			}
			st = st*31 + uint64(o.N[0])
		}
	}
	res.State = st
	res.Nontrivial = len(p.Ops) > 0 && s.S.Switches > 4
	return res
}

var Check = &kernel.Check{
	ID: "C01", Gen: gen, Run: run,
	Simpler: map[string][]int64{"rsegA": {0}, "rsegB": {0}, "wsegA": {0}, "wsegB": {0}, "post": {0}},
	Probes: func() map[string]*kernel.Plan {
		return map[string]*kernel.Plan{
			// fixed: an endpoint's own Set Chunk Size was not applied to its writer
			"own-set-chunk-size": {Property: "C01", Cfg: map[string]int64{}, Ops: []kernel.Op{
				{K: "scs", T: 0, N: []int64{4096}},
				{K: "msg", T: 0, N: []int64{9, 1, 0, 300, 7}},
			}},
			"ext-timestamp-multichunk": {Property: "C01", Cfg: map[string]int64{"rsegB": simnet.SegOne}, Ops: []kernel.Op{
				{K: "msg", T: 0, N: []int64{9, 1, 0x1000000, 300, 7}},
				{K: "msg", T: 1, N: []int64{8, 0xFFFFFFFF, 1<<31 - 1, 129, 9}},
			}},
		}
	},
}

func TestCheck(t *testing.T) { kernel.Drive(t, Check) }

var _ = fmt.Sprint
