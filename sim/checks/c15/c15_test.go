// C15: while one goroutine writes data messages and another reads, any number of
// goroutines may send pings, pongs and close frames or close the connection:
// under every interleaving the bytes on the wire remain whole well-formed
// frames, data messages delivered before a close are intact and in order, there
// is no data race; after a Close frame every later write fails with the
// close-sent error and nothing further reaches the wire.
//
// Oracle engine: one endpoint (either role) inside a testing/synctest bubble;
// every transport Write/SetWriteDeadline/Close is a yield point (also between
// the two buffers of one frame); tasks blocked on the library's write lock are
// recognised by synctest.Wait; stall faults advance the fake clock past control
// deadlines. Race engine (VERIF_ENGINE=race): futex gates at API boundaries.
package c15

import (
	"strings"
	"bytes"
	"fmt"
	"io"
	"os"
	"testing"
	"time"

	"github.com/ossrs/go-oryx-lib/websocket"
	"verif/sim/kernel"
	"verif/sim/ref"
	"verif/sim/simnet"
	"verif/sim/wsx"
)

var raceEngine = os.Getenv("VERIF_ENGINE") == "race"

const maxK = 4

func gen(g *kernel.Rng, seed uint64, tier string) *kernel.Plan {
	p := &kernel.Plan{Property: "C15", Seed: seed, Cfg: map[string]int64{}}
	p.Cfg["role"] = int64(g.Intn(2))
	wb := g.OneOf(1, 16, 64, 256, 1024, 4096)
	p.Cfg["wb"] = wb
	p.Cfg["rsegIn"] = int64(g.Pick(3, 1, 2))
	p.Cfg["comp"] = int64(g.Pick(3, 1)) // permessage-deflate negotiated and used by the data writer
	p.Cfg["rlimit"] = g.OneOf(0, 0, 0, 100) // read limit of the endpoint: a 125-byte data frame of the peer ends the reading with a 1009 Close written by the reader
	nk := g.Range(0, maxK)
	nd := g.Range(1, 6)
	for i := 0; i < nd; i++ {
		sz := g.OneOf(0, 1, wb-1, wb, wb+1, 2*wb+15, 2*wb+29, 3*wb+7, int64(g.Range(0, 3000)))
		if sz < 0 {
			sz = 0
		}
		if sz > 20000 {
			sz = 20000
		}
		if wb == 1 && sz > 40 {
			sz = int64(g.Range(0, 40))
		}
		typ := int64(g.Range(1, 2))
		if g.Bool(0.07) {
			// the data writer sends a Close through its own message APIs
			typ, sz = 8, g.OneOf(0, 5, 40, 123)
		}
		// N[4], N[5]: the data writer's SetWriteDeadline before this message
		// (0 untouched, 1 one hour, 2 N[5] milliseconds, 3 reset to none)
		p.Ops = append(p.Ops, kernel.Op{K: "d", T: 0, N: []int64{typ, sz, int64(g.Pick(3, 2, 1)), int64(g.U32()), int64(g.Pick(8, 2, 2, 1)), g.OneOf(1, 500, 1500, 3000)}})
	}
	closes := 0
	for k := 1; k <= nk; k++ {
		n := g.Range(1, 4)
		for i := 0; i < n; i++ {
			kind := g.OneOf(9, 9, 10, 10, 8)
			if kind == 8 {
				closes++
				if closes > 1 && g.Bool(0.6) {
					kind = 9
				}
			}
			dk := int64(g.Pick(3, 3, 3))
			p.Ops = append(p.Ops, kernel.Op{K: "k", T: k, N: []int64{kind, g.OneOf(0, 1, 20, 121), dk, g.OneOf(1, 500, 1500, 3000), int64(g.U32()), g.OneOf(1000, 1001, 4000)}})
		}
	}
	if g.Bool(0.3) {
		p.Ops = append(p.Ops, kernel.Op{K: "x", T: 5})
	}
	np := g.Range(0, 6)
	for i := 0; i < np; i++ {
		kind := g.OneOf(9, 9, 9, 1, 2, 10)
		p.Ops = append(p.Ops, kernel.Op{K: "p", T: 6, N: []int64{kind, g.OneOf(0, 5, 125), int64(g.U32())}})
	}
	if g.Bool(0.15) {
		p.Ops = append(p.Ops, kernel.Op{K: "p", T: 6, N: []int64{8, 2, 1000}})
	}
	if g.Bool(0.5) {
		n := g.Range(1, 3)
		for i := 0; i < n; i++ {
			p.Faults = append(p.Faults, kernel.Fault{K: "stall", At: int64(g.Range(5, 120)), Arg: g.OneOf(2, 600, 1100, 2500, 5000)})
		}
	}
	p.Tape = kernel.GenTape(g, g.Range(20, 300), 0.15)
	p.TapeSeed = g.U64() | 1
	return p
}

type call struct {
	task         int
	what         string
	step0, step1 int
	err          error
	tag          []byte // unique payload prefix of a control frame
	kind         int
	deadlineKind int64
	expired      bool // its deadline had passed when the call returned
	data         []byte
	typ          int
	completes    bool // message-completing call
}

func ctlPayload(opIndex int, n int, seed int64) []byte {
	tag := []byte(fmt.Sprintf("#%03d#", opIndex))
	if n < len(tag) {
		n = len(tag) // every control frame carries a unique tag
	}
	b := kernel.Fill(n, uint64(seed))
	for i := range b {
		b[i] = 'a' + b[i]%26
	}
	if n < len(tag) {
		return tag[:n]
	}
	copy(b, tag)
	return b
}

func run(p *kernel.Plan) (res *kernel.Result) {
	res = &kernel.Result{}
	for _, o := range p.Ops {
		switch o.K {
		case "d":
			if len(o.N) < 4 || o.N[1] < 0 || o.N[1] > 100000 || o.T != 0 || (o.N[0] != 1 && o.N[0] != 2 && o.N[0] != 8) || (o.N[0] == 8 && o.N[1] > 123) {
				res.Invalid = true
				return
			}
		case "k":
			if len(o.N) < 6 || o.T < 1 || o.T > maxK || o.N[1] < 0 || o.N[1] > 123 || (o.N[0] != 8 && o.N[0] != 9 && o.N[0] != 10) {
				res.Invalid = true
				return
			}
		case "x":
		case "p":
			if len(o.N) < 3 || o.N[1] < 0 || o.N[1] > 125 || (o.N[0] != 1 && o.N[0] != 2 && o.N[0] != 8 && o.N[0] != 9 && o.N[0] != 10) {
				res.Invalid = true
				return
			}
		default:
			res.Invalid = true
			return
		}
	}
	mode := kernel.ModeBubble
	if raceEngine {
		mode = kernel.ModeFutex
	}
	tape := kernel.NewTape(p)
	s := kernel.NewSched(mode, tape, 100000)
	role := p.C("role")
	o := wsx.Opts{}
	if role == 0 {
		o.ClientWB = int(p.C("wb"))
	} else {
		o.ServerWB = int(p.C("wb"))
	}
	comp := p.C("comp") != 0
	o.ClientComp, o.ServerComp = comp, comp
	pr := wsx.NewPair(s, tape, o)
	eOut, eIn := pr.CC.Out, pr.SC.Out
	eConn := pr.CC
	if role == 1 {
		eOut, eIn = pr.SC.Out, pr.CC.Out
		eConn = pr.SC
	}
	eIn.RSeg = int(p.C("rsegIn"))
	if raceEngine {
		// no task may park while holding the library's write lock
		eOut.NoWriteGates = true
	} else {
		eConn.YieldOnClose, eConn.YieldOnDeadline, eConn.YieldOnErrInspect = true, true, true
		eConn.EnforceDeadline = true // a write parked past its deadline (stall fault) times out
	}
	var under *websocket.Conn
	ready := &flag{}
	readyCh := make(chan struct{}) // publishes the Conn to the other tasks the way an application would
	calls := make([][]call, 8) // per task: only that task appends
	var readErr error
	readErrStep := -1
	var readMsgs int
	closedByCloser := false

	var kcount int
	for _, op := range p.Ops {
		if op.K == "k" && op.T > kcount {
			kcount = op.T
		}
	}
	hasX := false
	for _, op := range p.Ops {
		if op.K == "x" {
			hasX = true
		}
	}
	// everything that needs fmt is prepared here, outside the tasks (see Task.Evf)
	whats := make([]string, len(p.Ops))
	ctlPay := make([][]byte, len(p.Ops))
	hdrs := make([][]byte, len(p.Ops))
	for i, op := range p.Ops {
		switch op.K {
		case "d":
			whats[i] = fmt.Sprintf("data#%d(%dB,api%d)", i, op.N[1], op.N[2])
			hdrs[i] = []byte(fmt.Sprintf("<%03d>", i))
			if op.N[0] == 8 {
				ctlPay[i] = ctlPayload(i, int(op.N[1]), op.N[3])
				whats[i] = fmt.Sprintf("close-by-data-writer#%d(%dB,api%d)", i, len(ctlPay[i]), op.N[2])
			}
		case "k":
			ctlPay[i] = ctlPayload(i, int(op.N[1]), op.N[4])
			whats[i] = fmt.Sprintf("control#%d(kind %d,%dB,deadline %d)", i, op.N[0], len(ctlPay[i]), op.N[2])
		}
	}
	rec := func(t *kernel.Task, c call) {
		calls[t.ID] = append(calls[t.ID], c)
		t.Evf("call", "%s err=%v", c.what, c.err)
	}
	// task 0: D (also performs the handshake of the endpoint under test)
	s.Go("D", func(t *kernel.Task) {
		if role == 0 {
			pr.Dial()
			under = pr.Client
		} else {
			pr.Upgrade()
			under = pr.Server
		}
		// wait for the other half of the handshake, then hand the peer's side to the stub
		other := pr.ServerDone()
		if role == 1 {
			other = pr.ClientDone()
		}
		if !other.Ready() {
			t.Block("wait-peer-handshake", other)
		}
		close(readyCh)
		ready.set()
		if under == nil {
			return
		}
		c := under
		c.EnableWriteCompression(comp)
		var ddl time.Time // the data writer's write deadline in force
		ddlKind := int64(0)
		for i, op := range p.Ops {
			if op.K != "d" {
				continue
			}
			t.Yield("before-data-message")
			typ := int(op.N[0])
			data := kernel.Fill(int(op.N[1]), uint64(op.N[3]))
			for j := range data {
				data[j] = 'A' + data[j]%26
			}
			hdr := hdrs[i]
			if len(data) >= len(hdr) {
				copy(data, hdr)
			}
			dk := int64(0)
			if len(op.N) > 5 {
				dk = op.N[4]
			}
			if dk != 0 {
				ddlKind = dk
			}
			switch dk {
			case 1:
				ddl = time.Now().Add(time.Hour)
				c.SetWriteDeadline(ddl)
			case 2:
				ddl = time.Now().Add(time.Duration(op.N[5]) * time.Millisecond)
				if raceEngine {
					ddl = time.Now().Add(time.Hour) // real clock: no tight deadlines
				}
				c.SetWriteDeadline(ddl)
			case 3:
				ddl = time.Time{}
				c.SetWriteDeadline(ddl)
			}
			var tag []byte
			if typ == websocket.CloseMessage {
				tag = ctlPay[i]
				data = websocket.FormatCloseMessage(1000, string(tag))
			}
			cl := call{task: 0, what: whats[i], step0: s.Now(), data: data, typ: typ, completes: true, kind: typ, tag: tag, deadlineKind: ddlKind}
			api := op.N[2]
			if typ == websocket.CloseMessage && int64(len(data)) > p.C("wb") {
				// a control frame that does not fit the write buffer cannot go
				// through the streaming APIs (a rule of the API, not a failure)
				api = 2
			}
			switch api {
			case 0:
				cl.err = c.WriteMessage(typ, data)
			case 1:
				var w io.WriteCloser
				w, cl.err = c.NextWriter(typ)
				if cl.err == nil {
					rest := data
					for len(rest) > 0 && cl.err == nil {
						n := 1 + tape.Next(len(rest))
						_, cl.err = w.Write(rest[:n])
						rest = rest[n:]
					}
					if cl.err == nil {
						cl.err = w.Close()
					}
				}
			default:
				var pm *websocket.PreparedMessage
				pm, cl.err = websocket.NewPreparedMessage(typ, data)
				if cl.err == nil {
					cl.err = c.WritePreparedMessage(pm)
				}
			}
			cl.step1 = s.Now()
			cl.expired = !ddl.IsZero() && !time.Now().Before(ddl)
			rec(t, cl)
		}
	})
	// the other half of the handshake
	s.Go("peer-hs", func(t *kernel.Task) {
		if role == 0 {
			pr.Upgrade()
		} else {
			pr.Dial()
		}
	})
	// control senders
	for k := 1; k <= maxK; k++ {
		k := k
		s.Go(fmt.Sprintf("K%d", k), func(t *kernel.Task) {
			if !ready.Ready() {
				t.Block("wait-ready", ready)
			}
			<-readyCh
			if under == nil {
				return
			}
			for i, op := range p.Ops {
				if op.K != "k" || op.T != k {
					continue
				}
				t.Yield("before-control")
				kind := int(op.N[0])
				pay := ctlPay[i]
				tag := pay
				if kind == 8 {
					pay = websocket.FormatCloseMessage(int(op.N[5]), string(pay))
					if len(pay) > 125 {
						pay = pay[:125]
					}
					tag = pay[2:]
				}
				var dl time.Time
				switch op.N[2] {
				case 1:
					dl = time.Now().Add(time.Hour)
				case 2:
					dl = time.Now().Add(time.Duration(op.N[3]) * time.Millisecond)
				}
				if raceEngine && op.N[2] == 2 {
					dl = time.Now().Add(time.Hour) // real clock: no tight deadlines
				}
				cl := call{task: t.ID, what: whats[i], step0: s.Now(), tag: tag, kind: kind, deadlineKind: op.N[2], completes: true}
				cl.err = under.WriteControl(kind, pay, dl)
				cl.step1 = s.Now()
				cl.expired = !dl.IsZero() && !time.Now().Before(dl)
				rec(t, cl)
			}
		})
	}
	// closer
	s.Go("X", func(t *kernel.Task) {
		if !ready.Ready() {
			t.Block("wait-ready", ready)
		}
		<-readyCh
		if under == nil || !hasX {
			return
		}
		t.Yield("before-close")
		cl := call{task: t.ID, what: "Close()", step0: s.Now()}
		cl.err = under.Close()
		closedByCloser = true
		cl.step1 = s.Now()
		rec(t, cl)
	})
	// peer stub: feeds frames to the endpoint's reader one at a time
	var pingsFed [][]byte
	s.Go("P", func(t *kernel.Task) {
		if !ready.Ready() {
			t.Block("wait-ready", ready)
		}
		<-readyCh
		for _, op := range p.Ops {
			if op.K != "p" {
				continue
			}
			t.Yield("before-peer-frame")
			pay := kernel.Fill(int(op.N[1]), uint64(op.N[2]))
			for j := range pay {
				pay[j] = 'p' + pay[j]%8
			}
			kind := byte(op.N[0])
			if kind == 8 {
				pay = []byte{0x03, 0xe8}
			}
			if kind == 9 {
				pingsFed = append(pingsFed, pay)
			}
			key := [4]byte{1, 2, 3, byte(op.N[2])}
			b := ref.WSEncode(true, 0, kind, role == 1, key, pay, 0, 0, false)
			eIn.Inject(b)
		}
		t.Yield("before-peer-eof")
		eIn.CloseWrite()
	})
	// reader of the endpoint under test
	s.Go("R", func(t *kernel.Task) {
		if !ready.Ready() {
			t.Block("wait-ready", ready)
		}
		<-readyCh
		if under == nil {
			return
		}
		if rl := p.C("rlimit"); rl > 0 {
			under.SetReadLimit(rl)
		}
		for {
			_, _, err := under.ReadMessage()
			if err != nil {
				readErr = err
				readErrStep = s.Now()
				return
			}
			readMsgs++
		}
	})
	stalls := 0
	if !raceEngine {
		for _, f := range p.Faults {
			if f.K == "stall" && f.Arg > 0 && f.Arg <= 3600000 {
				d := time.Duration(f.Arg) * time.Millisecond
				s.AtStep(int(f.At), func() {
					stalls++
					s.SchedEv("fault", fmt.Sprintf("stall %v", d))
					s.Sleep(d)
				})
			}
		}
	}
	start := time.Now()
	err := s.Run()
	var stuck []string
	if err != nil {
		stuck = s.Unfinished()
		pr.CC.Close()
		pr.SC.Close()
		if mode == kernel.ModeBubble {
			s.Sleep(2000 * time.Hour) // let control writers blocked on the write lock time out
		}
		s.Abort()
	}
	s.Join()
	res.SimTimeMs = int64(time.Since(start) / time.Millisecond)
	res.Hash, res.Inter, res.Tail = s.Log.Hash(), s.Log.Interleaving(), s.Log.Tail(14)
	res.Stat("scheduler_steps", int64(s.Steps))
	res.Stat("task_switches", int64(s.Switches))
	res.Stat("fault_stall", int64(stalls))
	res.Stat("transport_write_timeouts", int64(eConn.Timeouts))
	res.Nontrivial = true
	if t, ok := s.FirstPanic(); ok {
		return res.Fail("C15/panic", "task %s: %v\n%s", t.Name, t.Panic, t.Stack)
	}
	if raceEngine {
		res.Stat("race_engine_runs", 1)
		res.Stat("releases_left_blocked_on_a_real_lock", int64(s.RealBlocked))
		if err != nil {
			for _, u := range stuck {
				if strings.HasSuffix(u, "@blocked-in-library") {
					return res.Fail("C15/no-progress", "deadlock inside the library: %v %v", err, stuck)
				}
			}
			return res.Fail("harness/race-engine-run", "%v %v", err, stuck)
		}
		return res
	}
	if err == kernel.ErrSteps {
		return res.Fail("harness/step-limit", "%v", err)
	}
	if err != nil {
		return res.Fail("C15/no-progress", "%v: %v", err, stuck)
	}
	if pr.ClientErr != nil || pr.ServerErr != nil || under == nil {
		return res.Fail("harness/handshake", "Dial: %v; Upgrade: %v", pr.ClientErr, pr.ServerErr)
	}
	_ = readErr

	// ---------- the wire ----------
	hs := pr.HsC2S
	if role == 1 {
		hs = pr.HsS2C
	}
	wire := eOut.Wire[hs:]
	frames, used, perr := ref.WSParse(wire, true)
	if perr != nil {
		return res.Fail("C15/wire-frame-invalid", "%v", perr)
	}
	res.Stat("transport_write_timeouts_foreign_deadline", int64(eConn.ForeignTimeouts))
	if used != len(wire) && !closedByCloser && (eConn.Timeouts == 0 || eConn.ForeignTimeouts > 0) {
		// (a transport write that timed out on the deadline its own call armed, in
		// the middle of a frame, leaves a torn frame behind as on a real socket - a
		// transport fault, the connection is unusable afterwards; a write cut short
		// by the deadline of ANOTHER call is a frame torn by the interleaving)
		return res.Fail("C15/wire-partial-frame", "%d bytes after the last whole frame although the connection was not closed (transport write timeouts: %d, of them under another call's deadline: %d)", len(wire)-used, eConn.Timeouts, eConn.ForeignTimeouts)
	}
	// frame boundaries vs transport writes: a write that starts inside a frame
	// must come from the task that wrote the frame's beginning
	bound := map[int]bool{0: true}
	for _, f := range frames {
		bound[f.End] = true
	}
	prevTask := -1
	off := 0
	widx := 0
	for i, end := range eOut.WriteEnd {
		if end <= hs {
			widx = i + 1
			continue
		}
	}
	for i := widx; i < len(eOut.WriteEnd); i++ {
		startOff := off
		off = eOut.WriteEnd[i] - hs
		tk := -1
		if i < len(eOut.WriteTask) {
			tk = eOut.WriteTask[i]
		}
		if !bound[startOff] && tk != prevTask {
			return res.Fail("C15/control-inside-frame", "transport write %d (task %d, bytes %d..%d) starts inside a frame begun by task %d", i, tk, startOff, off, prevTask)
		}
		if !bound[startOff] {
			res.Stat("frames_spanning_two_transport_writes", 1)
		}
		prevTask = tk
	}
	// validate and reassemble (a trailing unfinished message is possible after a close)
	closeIdx := -1
	for i, f := range frames {
		if f.Op == 8 && closeIdx < 0 {
			closeIdx = i
		}
	}
	if closeIdx >= 0 && closeIdx != len(frames)-1 {
		return res.Fail("C15/write-after-close-frame", "%d frames follow the Close frame on the wire (first: %v)", len(frames)-1-closeIdx, frames[closeIdx+1])
	}
	if closeIdx >= 0 && used != len(wire) {
		return res.Fail("C15/write-after-close-frame", "bytes follow the Close frame on the wire")
	}
	var msgs []ref.WSMessage
	var ctrl []ref.WSFrame
	{
		fr := frames
		var verr error
		msgs, ctrl, verr = ref.WSValidate(fr, role == 0, comp)
		if verr != nil && verr.Error() != "stream ends inside a fragmented message" {
			return res.Fail("C15/wire-rfc6455", "%v", verr)
		}
	}
	// data messages: those whose call returned nil are on the wire, intact, in order
	var okData []call
	var allData []call
	var ctlCalls []call // control senders' calls and the data writer's Close messages
	for _, c := range calls[0] {
		if c.typ == websocket.CloseMessage {
			ctlCalls = append(ctlCalls, c)
			continue
		}
		allData = append(allData, c)
		if c.err == nil {
			okData = append(okData, c)
		}
	}
	for tk := 1; tk <= maxK; tk++ {
		ctlCalls = append(ctlCalls, calls[tk+1]...)
	}
	mi := 0
	for _, c := range allData {
		if mi < len(msgs) && int(msgs[mi].Type) == c.typ && bytes.Equal(msgs[mi].Payload, c.data) {
			mi++
			continue
		}
		if c.err == nil {
			got := "nothing"
			if mi < len(msgs) {
				got = fmt.Sprintf("(type %d, %d bytes %q…)", msgs[mi].Type, len(msgs[mi].Payload), clipb(msgs[mi].Payload))
			}
			return res.Fail("C15/data-message-corrupt", "%s returned nil but the wire holds %s at its place", c.what, got)
		}
	}
	if mi != len(msgs) {
		return res.Fail("C15/data-message-unknown", "the wire holds a data message (type %d, %d bytes %q…) that matches no write in order", msgs[mi].Type, len(msgs[mi].Payload), clipb(msgs[mi].Payload))
	}
	res.Stat("data_messages_on_wire", int64(len(msgs)))
	// a failing call of the data writer needs a reason: its own deadline, a
	// transport write that timed out on its caller's deadline (the connection is
	// unusable from then on), Close() by the closer, or a Close frame sent
	{
		closerAt, closeCallAt, peerClose := -1, -1, false
		for _, cs := range calls {
			for _, c := range cs {
				if c.what == "Close()" && (closerAt < 0 || c.step0 < closerAt) {
					closerAt = c.step0
				}
				if c.kind == websocket.CloseMessage && (closeCallAt < 0 || c.step0 < closeCallAt) {
					closeCallAt = c.step0
				}
			}
		}
		for _, op := range p.Ops {
			if op.K == "p" && op.N[0] == 8 {
				peerClose = true // the reader echoes it: a Close frame written from the reading goroutine
			}
			if rl := p.C("rlimit"); rl > 0 && op.K == "p" && (op.N[0] == 1 || op.N[0] == 2) && op.N[1] > rl {
				peerClose = true // the reader answers the oversize message with a 1009 Close
			}
		}
		sticky := false
		for _, c := range calls[0] {
			if c.err == nil {
				continue
			}
			res.Stat("data_writer_calls_failed", 1)
			ok := sticky || c.expired
			for _, st := range eConn.OwnTimeoutSteps {
				if st <= c.step1 {
					ok = true
				}
			}
			if closerAt >= 0 && closerAt <= c.step1 {
				ok = true
			}
			if c.err == websocket.ErrCloseSent && (peerClose || (closeCallAt >= 0 && closeCallAt <= c.step1)) {
				ok = true
			}
			if closeIdx >= 0 {
				// a Close frame (whoever wrote it, e.g. the reader after a rule
				// violation of the peer) reached the wire before this call returned:
				// a call in progress at that moment may fail in whatever way
				if cfs := eOut.StepReached(int64(hs + frames[closeIdx].End)); cfs >= 0 && cfs <= c.step1 {
					ok = true
				}
			}
			if !ok {
				return res.Fail("C15/data-write-failed", "%s (steps %d..%d) failed with %v although no Close frame had been sent, the connection was not closed and neither its own deadline nor any caller's own transport deadline had expired (transport write timeouts: %d, under another call's deadline: %d)", c.what, c.step0, c.step1, c.err, eConn.Timeouts, eConn.ForeignTimeouts)
			}
			sticky = true
		}
	}
	// control frames: nil-returning calls appear exactly once, failing calls never
	seen := map[string]int{}
	pongsOnWire := 0
	for _, f := range ctrl {
		pl := f.Payload
		if f.Op == 8 && len(pl) >= 2 {
			pl = pl[2:]
		}
		if f.Op == 10 && !bytes.HasPrefix(pl, []byte("#")) {
			pongsOnWire++
			continue
		}
		seen[string(pl)]++
	}
	closeFrameStep := -1
	if closeIdx >= 0 {
		closeFrameStep = eOut.StepReached(int64(hs + frames[closeIdx].End))
	}
	{
		for _, c := range ctlCalls {
			n := seen[string(c.tag)]
			delete(seen, string(c.tag))
			isTimeout := c.err != nil && c.err != websocket.ErrCloseSent && (c.err.Error() == "websocket: write timeout" || c.expired)
			switch {
			case c.err == nil && n != 1:
				return res.Fail("C15/control-lost-or-duplicated", "%s returned nil but its frame is on the wire %d times", c.what, n)
			case c.err != nil && n != 0:
				k := "C15/control-written-despite-error"
				if isTimeout {
					k = "C15/timeout-but-written"
				}
				return res.Fail(k, "%s returned %v but its frame is on the wire", c.what, c.err)
			}
			if isTimeout {
				res.Stat("control_writes_timed_out", 1)
				if c.deadlineKind != 2 {
					return res.Fail("C15/spurious-timeout", "%s timed out although its deadline was zero/one hour (simulated run took %v)", c.what, time.Duration(res.SimTimeMs)*time.Millisecond)
				}
			}
		}
	}
	// a Close frame no call wrote is the reading goroutine's own (echo, 1009
	// after the read limit): its reason text is the library's business
	if closeIdx >= 0 && readErr != nil {
		rt := frames[closeIdx].Payload
		if len(rt) >= 2 {
			rt = rt[2:]
		}
		if n := seen[string(rt)]; n == 1 {
			delete(seen, string(rt))
		}
	}
	for tg, n := range seen {
		if len(tg) > 0 {
			return res.Fail("C15/control-unknown", "a control frame with payload %q is on the wire %d times but no call wrote it", clipb([]byte(tg)), n)
		}
	}
	// after the Close frame: every message-completing call invoked later fails with ErrCloseSent
	closedAt := -1 // step at which the closer invoked Close()
	for _, cs := range calls {
		for _, c := range cs {
			if c.what == "Close()" {
				closedAt = c.step0
			}
		}
	}
	if closeFrameStep >= 0 {
		res.Stat("runs_with_close_frame", 1)
		// "sent": the call that wrote the Close frame has returned (the frame may
		// be on the wire a moment before the sender has latched it); for a Close
		// written by the reading goroutine, its read call has returned
		sentStep := -1
		ctag := frames[closeIdx].Payload
		if len(ctag) >= 2 {
			ctag = ctag[2:]
		}
		for _, cs := range calls {
			for _, c := range cs {
				if c.kind == websocket.CloseMessage && c.err == nil && len(c.tag) > 0 && bytes.Equal(c.tag, ctag) {
					sentStep = c.step1
				}
			}
		}
		if sentStep < 0 {
			sentStep = readErrStep
		}
		if sentStep < closeFrameStep {
			sentStep = closeFrameStep
		}
		for _, cs := range calls {
			for _, c := range cs {
				if !c.completes || c.step0 <= sentStep || sentStep < 0 {
					continue
				}
				res.Stat("calls_after_close_frame", 1)
				if c.err == websocket.ErrCloseSent {
					continue
				}
				if c.err != nil && c.expired {
					continue // its own deadline had passed: the timeout error is as good
				}
				if c.err != nil && closedAt >= 0 && closedAt <= c.step1 {
					// the closer had called Close() by then: which of the two reasons
					// the failing write names is left open (nothing reaches the wire)
					res.Stat("calls_after_close_frame_and_Close", 1)
					continue
				}
				return res.Fail("C15/write-after-close-accepted", "%s was invoked at step %d, after the Close frame reached the wire at step %d, and returned %v instead of the close-sent error", c.what, c.step0, closeFrameStep, c.err)
			}
		}
	}
	// pongs written for the peer's pings: an in-order subsequence of the pings
	// fed; all of them when nothing could legitimately prevent one (no close
	// frame, no closer, no stall, reader ran to the end of the stream)
	var pongs [][]byte
	for _, f := range ctrl {
		if f.Op == 10 && !bytes.HasPrefix(f.Payload, []byte("#")) {
			pongs = append(pongs, f.Payload)
		}
	}
	pi := 0
	for _, pg := range pongs {
		for pi < len(pingsFed) && !bytes.Equal(pingsFed[pi], pg) {
			pi++
		}
		if pi == len(pingsFed) {
			return res.Fail("C15/pong-unknown", "a pong with payload %q is on the wire that answers no ping in order (pings fed: %d)", clipb(pg), len(pingsFed))
		}
		pi++
	}
	if closeIdx < 0 && !closedByCloser && stalls == 0 && readErr != nil && len(pongs) != len(pingsFed) {
		peerClosed := false
		for _, op := range p.Ops {
			if op.K == "p" && op.N[0] == 8 {
				peerClosed = true
			}
		}
		if !peerClosed {
			return res.Fail("C15/pong-missing", "%d pings were fed to the reader, %d pongs are on the wire although nothing was closed and no deadline could expire", len(pingsFed), len(pongs))
		}
	}
	res.Stat("pongs_on_wire", int64(pongsOnWire))
	res.State = uint64(len(frames))<<24 ^ uint64(closeIdx+1)<<12 ^ uint64(stalls)
	return res
}

func clipb(b []byte) []byte {
	if len(b) > 24 {
		return b[:24]
	}
	return b
}

type flag struct{ v int32 }

//go:norace
func (f *flag) Ready() bool { return f.v != 0 }

//go:norace
func (f *flag) set() { f.v = 1 }

var Check = &kernel.Check{
	ID: "C15", Gen: gen, Run: run, Bubble: !raceEngine, Race: raceEngine, ResetPools: true,
	LibPaths: []string{"/repo/", "go-oryx-lib"},
	Simpler:  map[string][]int64{"rsegIn": {0}, "wb": {4096, 256}, "role": {0, 1}},
}

func TestCheck(t *testing.T) { kernel.Drive(t, Check) }

var _ = simnet.SegOne
