// C09: FLV files written by the muxer are read back identically by the demuxer
// under every read segmentation, follow the FLV v1 layout after every write
// event (reference parser on the sim disk), and reference-written files demux
// to the same tags.
package c09

import (
	"bytes"
	"fmt"
	"io"
	"testing"

	oe "github.com/ossrs/go-oryx-lib/errors"
	"github.com/ossrs/go-oryx-lib/flv"
	"verif/sim/kernel"
	"verif/sim/ref"
	"verif/sim/simnet"
)

var sizes = []int64{0, 1, 2, 10, 11, 15, 255, 256, 257, 4095, 4096, 65535, 65536, 65537}
var stamps = []int64{0, 1, 0xFFFFFE, 0xFFFFFF, 0x1000000, 0x1000001, 0x7FFFFFFF, 0x80000000, 0xFFFFFFFE, 0xFFFFFFFF, 0x00FF00FF, 0x12345678}

func gen(g *kernel.Rng, seed uint64, tier string) *kernel.Plan {
	p := &kernel.Plan{Property: "C09", Seed: seed, Cfg: map[string]int64{}}
	p.Cfg["flags"] = int64(g.Intn(4))
	p.Cfg["rseg"] = int64(g.Pick(2, 2, 3, 2, 2))
	p.Cfg["writer"] = int64(g.Pick(3, 2)) // 0 library muxer, 1 reference writer
	p.Cfg["eofdata"] = int64(g.Pick(2, 1))
	p.Cfg["sharedbuf"] = int64(g.Pick(1, 1)) // bodies handed over as consecutive sub-slices of one buffer
	p.Cfg["twomux"] = int64(g.Pick(3, 1))    // a second muxer is used while a write of the first is in flight
	p.Cfg["twomuxAt"] = int64(g.Range(0, 6))
	n := g.Range(0, 12)
	big := g.Bool(0.003)
	total := int64(0)
	for i := 0; i < n; i++ {
		var sz int64
		switch g.Pick(5, 3, 2) {
		case 0:
			sz = sizes[g.Intn(len(sizes))]
		case 1:
			sz = int64(g.Intn(600))
		default:
			sz = int64(g.Intn(70000))
		}
		if big && i == 0 {
			sz = 1<<24 - 1
		}
		total += sz
		var ts int64
		if g.Bool(0.6) {
			ts = stamps[g.Intn(len(stamps))]
		} else {
			ts = int64(g.U32())
		}
		var tt int64
		switch g.Pick(3, 3, 2, 3) {
		case 0:
			tt = 8
		case 1:
			tt = 9
		case 2:
			tt = 18
		default:
			tt = int64(g.Intn(256))
		}
		p.Ops = append(p.Ops, kernel.Op{K: "tag", N: []int64{tt, ts, sz, int64(g.U32())}})
	}
	if total > 40000 && (p.Cfg["rseg"] == simnet.SegOne || p.Cfg["rseg"] == simnet.SegSmall) {
		p.Cfg["rseg"] = simnet.SegChunky
	}
	p.Tape = kernel.GenTape(g, g.Range(0, 48), 0.2)
	p.TapeSeed = g.U64() | 1
	return p
}

func causeIsEOF(err error) bool {
	c := oe.Cause(err)
	return c == io.EOF || c == io.ErrUnexpectedEOF
}

func run(p *kernel.Plan) (res *kernel.Result) {
	res = &kernel.Result{}
	defer func() {
		if r := recover(); r != nil {
			res.Fail("C09/panic", "%v", r)
		}
	}()
	tape := kernel.NewTape(p)
	log := kernel.NewLog(200)
	_ = log
	var want []ref.FLVTag
	for _, o := range p.Ops {
		if o.K != "tag" || len(o.N) < 4 || o.N[2] < 0 || o.N[2] > 1<<24-1 {
			res.Invalid = true
			return
		}
		want = append(want, ref.FLVTag{Type: byte(o.N[0]), Timestamp: uint32(o.N[1]), Body: kernel.Fill(int(o.N[2]), uint64(o.N[3]))})
	}
	hv, ha := p.C("flags")&1 != 0, p.C("flags")&2 != 0

	// reference file
	refFile := ref.FLVWriteHeader(hv, ha)
	for _, t := range want {
		refFile = append(refFile, ref.FLVWriteTag(t)...)
	}

	disk := simnet.NewPipe("disk", nil, tape)
	disk.NoYield = true
	disk.Record = true
	disk.RSeg = int(p.C("rseg"))
	disk.EOFData = p.C("eofdata") != 0
	if p.C("writer") == 0 {
		// library muxer onto the sim disk; the reference parser inspects the
		// durable bytes after every write event
		// the bodies as the application holds them: each its own slice, or
		// consecutive sub-slices of one receive buffer (spare capacity behind each)
		give := make([][]byte, len(want))
		var shared []byte
		if p.C("sharedbuf") != 0 {
			for _, t := range want {
				shared = append(shared, t.Body...)
			}
			off := 0
			for i, t := range want {
				give[i] = shared[off : off+len(t.Body)]
				off += len(t.Body)
			}
			res.Stat("files_with_bodies_in_one_shared_buffer", 1)
		} else {
			for i, t := range want {
				give[i] = append([]byte(nil), t.Body...)
			}
		}
		// a second muxer with other header flags, on its own disk, used while a
		// write call of the first one is in flight
		var diskB *simnet.Pipe
		var wantB []byte
		if p.C("twomux") != 0 {
			diskB = simnet.NewPipe("diskB", nil, tape)
			diskB.NoYield, diskB.Record = true, true
			bodyB := kernel.Fill(37, 4242)
			wantB = append(ref.FLVWriteHeader(!hv, !ha), ref.FLVWriteTag(ref.FLVTag{Type: 18, Timestamp: 0x01020304, Body: bodyB})...)
			at := int(p.C("twomuxAt"))
			disk.OnWriteCall = func(idx int) {
				if idx != at {
					return
				}
				mb, _ := flv.NewMuxer(diskB)
				mb.WriteHeader(!hv, !ha)
				mb.WriteTag(flv.TagType(18), 0x01020304, bodyB)
				res.Stat("second_muxer_used_during_a_write", 1)
			}
		}
		mx, _ := flv.NewMuxer(disk)
		if err := mx.WriteHeader(hv, ha); err != nil {
			return res.Fail("C09/write-error", "WriteHeader: %v", err)
		}
		if v, a, tg, err := ref.FLVParse(disk.Wire); err != nil || v != hv || a != ha || len(tg) != 0 {
			return res.Fail("C09/layout-header", "after WriteHeader(%v,%v): parse=(%v,%v,%d tags,%v) bytes=% x", hv, ha, v, a, len(tg), err, disk.Wire)
		}
		for i, t := range want {
			if err := mx.WriteTag(flv.TagType(t.Type), t.Timestamp, give[i]); err != nil {
				return res.Fail("C09/write-error", "WriteTag %d: %v", i, err)
			}
			// invariant on the durable bytes (for big files only every few tags)
			if len(disk.Wire) < 300000 || i == len(want)-1 {
				_, _, tg, err := ref.FLVParse(disk.Wire)
				if err != nil {
					return res.Fail("C09/layout", "after tag %d (type %d ts %#x size %d): %v", i, t.Type, t.Timestamp, len(t.Body), err)
				}
				if len(tg) != i+1 {
					return res.Fail("C09/layout", "after tag %d the file holds %d tags", i, len(tg))
				}
				for j := range tg {
					if d := tagDiff(tg[j], want[j]); d != "" {
						return res.Fail("C09/layout-"+d, "file tag %d differs from written (%s): type %d/%d ts %#x/%#x size %d/%d", j, d, tg[j].Type, want[j].Type, tg[j].Timestamp, want[j].Timestamp, len(tg[j].Body), len(want[j].Body))
					}
				}
			}
		}
		mx.Close()
		if shared != nil {
			off := 0
			for i, t := range want {
				if !bytes.Equal(shared[off:off+len(t.Body)], t.Body) {
					return res.Fail("C09/caller-buffer-modified", "after the file was written the application's buffer no longer holds body %d as it was handed over", i)
				}
				off += len(t.Body)
			}
		}
		if diskB != nil && disk.OnWriteCall != nil && int(p.C("twomuxAt")) < disk.St.Writes && !bytes.Equal(diskB.Wire, wantB) {
			return res.Fail("C09/second-muxer-file", "the file of a second muxer used meanwhile differs from the reference bytes: % x", diskB.Wire[:min(len(diskB.Wire), 24)])
		}
		if !bytes.Equal(disk.Wire, refFile) {
			return res.Fail("C09/bytes-differ-from-reference-writer", "library file (%d bytes) != reference file (%d bytes)", len(disk.Wire), len(refFile))
		}
		res.Stat("files_written_by_muxer", 1)
	} else {
		disk.Write(refFile)
		res.Stat("files_written_by_reference", 1)
	}
	disk.CloseWrite()

	dm, _ := flv.NewDemuxer(disk)
	ver, v, a, err := dm.ReadHeader()
	if err != nil {
		return res.Fail("C09/read-error", "ReadHeader: %v", err)
	}
	if ver != 1 || v != hv || a != ha {
		return res.Fail("C09/header-mismatch", "ReadHeader = (%d,%v,%v), written (1,%v,%v)", ver, v, a, hv, ha)
	}
	var kept [][]byte
	for i, t := range want {
		tt, sz, ts, err := dm.ReadTagHeader()
		if err != nil {
			return res.Fail("C09/read-error", "ReadTagHeader %d: %v", i, err)
		}
		if byte(tt) != t.Type || ts != t.Timestamp || int(sz) != len(t.Body) {
			k := "type"
			if byte(tt) == t.Type {
				k = "timestamp"
				if ts == t.Timestamp {
					k = "size"
				}
			}
			return res.Fail("C09/tag-"+k, "tag %d header = (type %d, size %d, ts %#x), written (type %d, size %d, ts %#x)", i, tt, sz, ts, t.Type, len(t.Body), t.Timestamp)
		}
		body, err := dm.ReadTag(sz)
		if err != nil {
			return res.Fail("C09/read-error", "ReadTag %d: %v", i, err)
		}
		if !bytes.Equal(body, t.Body) {
			return res.Fail("C09/tag-body", "tag %d body differs (%d vs %d bytes)", i, len(body), len(t.Body))
		}
		kept = append(kept, body)
	}
	// the tags returned, looked at once the file has been read (the interface
	// sets no limit on how long a returned body stays valid)
	for i, body := range kept {
		if !bytes.Equal(body, want[i].Body) {
			return res.Fail("C09/tag-body-changed-after-return", "tag %d body was identical when ReadTag returned it and differs after the later tags were read", i)
		}
	}
	if _, _, _, err := dm.ReadTagHeader(); err == nil {
		return res.Fail("C09/tag-fabricated", "ReadTagHeader after the last tag returned nil error")
	} else if !causeIsEOF(err) {
		return res.Fail("C09/eof-cause", "end of file reported as %v", err)
	}
	dm.Close()
	res.Stat("tags", int64(len(want)))
	res.Stat("reads", int64(disk.St.Reads))
	res.Stat("short_reads", int64(disk.St.ShortReads))
	res.Stat("one_byte_reads", int64(disk.St.OneByteReads))
	res.Stat("reads_returning_data_with_eof", int64(disk.St.EOFWithData))
	for _, t := range want {
		if t.Timestamp >= 1<<24 {
			res.Stat("tags_ts_over_24bit", 1)
		}
		if len(t.Body) >= 65536 {
			res.Stat("tags_size_over_64KiB", 1)
		}
		if len(t.Body) == 0 {
			res.Stat("tags_empty", 1)
		}
		if len(t.Body) == 1<<24-1 {
			res.Stat("tags_max_size", 1)
		}
	}
	res.Nontrivial = len(want) > 0 && (disk.St.ShortReads > 0 || p.C("writer") == 0)
	res.Hash = kernel.HashBytes([]byte(fmt.Sprintf("%d|%d|%d", len(disk.Wire), disk.St.Reads, len(want))))
	res.Inter = uint64(disk.St.Reads)<<24 ^ uint64(len(refFile))
	res.State = uint64(len(want))<<8 | uint64(p.C("flags"))<<4 | uint64(p.C("rseg"))
	return res
}

func tagDiff(a, b ref.FLVTag) string {
	switch {
	case a.Type != b.Type:
		return "type"
	case a.Timestamp != b.Timestamp:
		return "timestamp"
	case len(a.Body) != len(b.Body):
		return "size"
	case !bytes.Equal(a.Body, b.Body):
		return "body"
	}
	return ""
}

var Check = &kernel.Check{
	ID: "C09", Gen: gen, Run: run,
	Simpler: map[string][]int64{"rseg": {simnet.SegWhole, simnet.SegOne}, "flags": {0}, "writer": {0, 1}},
}

func TestCheck(t *testing.T) { kernel.Drive(t, Check) }
