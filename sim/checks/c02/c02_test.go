// C02: any byte stream produced by a chunker that follows the RTMP 1.0 chunking
// rules is decoded into exactly the messages that were chunked, in completion
// order, with the timestamps the specification defines (31 bits); streams that
// break the rules the reader relies on are rejected with an error.
//
// Real reader endpoint; the peer is the reference chunker (stub written from
// the specification); the sim transport decides the read segmentation.
package c02

import (
	"bytes"
	"fmt"
	"io"
	"testing"

	oe "github.com/ossrs/go-oryx-lib/errors"
	"github.com/ossrs/go-oryx-lib/rtmp"
	"verif/sim/kernel"
	"verif/sim/ref"
	"verif/sim/rtmpx"
	"verif/sim/simnet"
)

var csidPool = []int64{3, 4, 5, 63, 64, 65, 100, 319, 320, 321, 1000, 65598, 65599}
var chunkSizes = []int64{1, 2, 3, 5, 127, 128, 129, 4096, 65536, 1<<31 - 1}
var firstTS = []int64{0, 1, 40, 0xFFFFFE, 0xFFFFFF, 0x1000000, 1<<31 - 1, 1 << 31, 1<<32 - 1}
var deltas = []int64{0, 1, 40, 40, 0xFFFFFE, 0xFFFFFF, 0x1000000, 0x1000001}

const nStreams = 6

func gen(g *kernel.Rng, seed uint64, tier string) *kernel.Plan {
	p := &kernel.Plan{Property: "C02", Seed: seed, Cfg: map[string]int64{}}
	ns := g.Range(1, nStreams)
	many := 0
	if g.Bool(0.06) {
		// many chunk streams alive at once (a reader's per-stream table must keep
		// the header state of every one of them)
		many = g.Range(50, 150)
		ns = nStreams + many
		p.Cfg["many"] = int64(many)
		p.Cfg["manyBase"] = int64([]int{66, 300, 2000, 40000}[g.Intn(4)])
		p.Cfg["manyStride"] = int64(g.Range(1, 7))
	}
	p.Cfg["cs0"] = 2
	used := map[int64]bool{2: true}
	for i := 1; i < nStreams; i++ {
		c := csidPool[g.Intn(len(csidPool))]
		for used[c] || (many > 0 && c >= p.Cfg["manyBase"] && c <= p.Cfg["manyBase"]+int64(many)*p.Cfg["manyStride"]) {
			c = int64(g.Range(3, 65599))
		}
		used[c] = true
		p.Cfg[fmt.Sprintf("cs%d", i)] = c
	}
	p.Cfg["rseg"] = int64(g.Pick(3, 1, 3, 1, 3))
	p.Cfg["form"] = int64(g.Intn(3))
	p.Cfg["bad"] = int64(g.Pick(60, 8, 8, 8, 8, 5))
	p.Cfg["eofdata"] = int64(g.Pick(2, 1))
	p.Cfg["relay"] = int64(g.Pick(2, 1)) // the endpoint forwards what it reads (a relay), on the same Protocol object
	p.Cfg["badAt"] = int64(g.Range(0, 12))
	p.Cfg["badH"] = int64(g.Range(1, 3))
	budget := int64(70000)
	small := g.Bool(0.5) || many > 0
	if small {
		budget = 3000
	}
	if many > 0 {
		budget = 12000
	}
	if !small && (p.Cfg["rseg"] == simnet.SegOne || p.Cfg["rseg"] == simnet.SegSmall) {
		p.Cfg["rseg"] = simnet.SegChunky
	}
	cs := int64(128)
	last := map[int][4]int64{} // per stream: ts, delta, len, type
	n := g.Range(1, 30)
	if many > 0 {
		n += ns
	}
	scsLeft := 3
	for i := 0; i < n; i++ {
		if scsLeft > 0 && g.Bool(0.12) {
			scsLeft--
			cs = chunkSizes[g.Intn(len(chunkSizes))]
			p.Ops = append(p.Ops, kernel.Op{K: "scs", T: 0, N: []int64{cs, int64(g.Intn(4))}})
			continue
		}
		st := g.Intn(ns)
		if many > 0 && i < ns {
			st = i // every stream carries one message first, the revisits follow
		}
		typ := g.OneOf(8, 9, 18, 20, 15, 17, 4, 5, 6, 3, 22, int64(g.Range(7, 255)))
		sid := g.OneOf(0, 1, 1, 1, 0xFFFFFFFF, int64(g.U32()))
		var ts, ln int64
		l, seen := last[st]
		if !seen {
			ts = firstTS[g.Intn(len(firstTS))]
		} else {
			switch g.Pick(5, 4, 1) {
			case 0:
				ts = l[0] + deltas[g.Intn(len(deltas))]
			case 1:
				ts = l[0] + l[1] // same delta again: type 3 becomes legal
			default:
				ts = int64(g.U32()) // may go backwards: forces type 0
			}
			if ts > 1<<32-1 {
				ts = int64(g.U32())
			}
		}
		switch g.Pick(4, 3, 3, 2) {
		case 0:
			k := int64(g.Range(1, 3))
			c := cs
			if c > 30000 {
				c = 128
			}
			ln = k*c + int64(g.Range(-1, 1))
		case 1:
			ln = int64(g.Range(1, 300))
		case 2:
			if seen {
				ln = l[2]
				typ = l[3]
			} else {
				ln = 7
			}
		default:
			ln = int64(g.Range(1, 70000))
		}
		if ln < 1 {
			ln = 1
		}
		if typ > 6 && g.Bool(0.04) {
			ln = 0 // an empty message: a header and no payload
		}
		if ln > budget {
			ln = 1 + ln%budget
		}
		budget -= ln
		if budget < 32 {
			budget = 32
		}
		if seen && g.Bool(0.5) {
			sid = -1 // same stream id as the previous message of this chunk stream
		}
		d := ts - l[0]
		last[st] = [4]int64{ts, d, ln, typ}
		p.Ops = append(p.Ops, kernel.Op{K: "m", T: st, N: []int64{typ, sid, ts, ln, int64(g.U32()), int64(g.Pick(2, 2, 2, 3))}})
	}
	p.Tape = kernel.GenTape(g, g.Range(0, 160), 0.2)
	p.TapeSeed = g.U64() | 1
	return p
}

type trace struct {
	ck       *ref.Chunker
	bytes    []byte
	expect   []ref.RTMPMsg
	hdr      []int
	ext      []bool
	badFired bool
	badKind  int
	valid    bool
}

func build(p *kernel.Plan, tape *kernel.Tape) *trace {
	t := &trace{ck: ref.NewChunker(), valid: true}
	ck := t.ck
	many := int(p.CD("many", 0))
	if many < 0 || many > 4000 {
		t.valid = false
		return t
	}
	nS := nStreams + many
	queues := make([][]kernel.Op, nS)
	lastSID := map[int]uint32{}
	for _, o := range p.Ops {
		if o.T < 0 || o.T >= nS {
			t.valid = false
			return t
		}
		switch o.K {
		case "m":
			if len(o.N) < 6 || o.N[3] < 0 || (o.N[3] == 0 && o.N[0] <= 6) || o.N[3] > 1<<24-1 || o.N[0] == 1 || o.N[0] == 2 || o.N[2] < 0 || o.N[2] > 1<<32-1 {
				t.valid = false
				return t
			}
		case "scs":
			if len(o.N) < 2 || o.N[0] < 1 || o.N[0] > 1<<31-1 || o.T != 0 {
				t.valid = false
				return t
			}
		default:
			t.valid = false
			return t
		}
		queues[o.T] = append(queues[o.T], o)
	}
	csid := func(i int) uint32 {
		if i >= nStreams {
			return uint32(p.CD("manyBase", 66) + int64(i-nStreams)*p.CD("manyStride", 1))
		}
		c := p.CD(fmt.Sprintf("cs%d", i), int64(3+i))
		if i == 0 {
			c = 2
		}
		if c < 2 || c > 65599 {
			c = int64(3 + i)
		}
		return uint32(c)
	}
	seenCS := map[uint32]bool{}
	for i := 0; i < nS; i++ {
		if c := csid(i); c < 2 || c > 65599 {
			t.valid = false
			return t
		}
		if seenCS[csid(i)] {
			t.valid = false
			return t
		}
		seenCS[csid(i)] = true
	}
	form := func() int {
		switch p.C("form") {
		case 1:
			return 3
		case 2:
			return 2 + tape.Next(2)
		}
		return 2
	}
	bad := int(p.C("bad"))
	if bad == 5 {
		// chunk stream 2 itself is fresh and starts with a type-2 or type-3
		// header: only the type-1 librtmp form is an exception
		h := byte(2 + p.CD("badH", 1)%2)
		b := ref.Basic(h, 2, 1)
		if h == 2 {
			b = append(b, 0, 0, 1)
		}
		ck.Out = append(ck.Out, b...)
		ck.Out = append(ck.Out, kernel.Fill(300, 97)...)
		t.badFired, t.badKind = true, 5
		t.bytes, t.expect, t.hdr, t.ext = ck.Out, ck.Done, ck.DoneHdr, ck.DoneExt
		return t
	}
	if bad == 4 {
		ck.LibrtmpPing([]byte{0, 6, 0, 0, 0x0d, 0x0f})
		t.badFired = true
		t.badKind = 4
	}
	chunks := 0
	inject := func() bool {
		switch bad {
		case 1, 2:
			for i := 0; i < nS; i++ {
				if ck.Busy(csid(i)) {
					s := ck.Streams[csid(i)]
					if bad == 1 {
						b := ref.Basic(0, csid(i), form())
						b = append(b, 0, 0, 5, 0, 0, 5, 9, 1, 0, 0, 0, 1, 2, 3, 4, 5)
						ck.Out = append(ck.Out, b...)
					} else {
						ln := uint32(len(sCur(s))) + 1
						b := ref.Basic(1, csid(i), form())
						b = append(b, 0, 0, 1, byte(ln>>16), byte(ln>>8), byte(ln), 9)
						ck.Out = append(ck.Out, b...)
					}
					// enough well-formed looking data for a lenient reader to go on
					ck.Out = append(ck.Out, kernel.Fill(300, 99)...)
					return true
				}
			}
			return false
		case 3:
			// a chunk stream never used before starts with type 1, 2 or 3
			fresh := uint32(40)
			for seenCS[fresh] {
				fresh++
			}
			h := byte(p.CD("badH", 1))
			if h < 1 || h > 3 {
				h = 1
			}
			b := ref.Basic(h, fresh, 1)
			switch h {
			case 1:
				b = append(b, 0, 0, 1, 0, 0, 4, 9)
			case 2:
				b = append(b, 0, 0, 1)
			}
			b = append(b, 1, 2, 3, 4)
			ck.Out = append(ck.Out, b...)
			ck.Out = append(ck.Out, kernel.Fill(300, 98)...)
			return true
		}
		return false
	}
	for {
		if bad >= 1 && bad <= 3 && !t.badFired && chunks >= int(p.C("badAt")) {
			if inject() {
				t.badFired = true
				t.badKind = bad
				break
			}
		}
		var cand []int
		for i := 0; i < nS; i++ {
			if ck.Busy(csid(i)) || len(queues[i]) > 0 {
				cand = append(cand, i)
			}
		}
		if len(cand) == 0 {
			break
		}
		i := cand[tape.Next(len(cand))]
		if ck.Busy(csid(i)) {
			ck.Continue(csid(i), form())
		} else {
			o := queues[i][0]
			queues[i] = queues[i][1:]
			var m ref.RTMPMsg
			want := 0
			if o.K == "scs" {
				v := uint32(o.N[0])
				m = ref.RTMPMsg{Type: 1, StreamID: 0, Timestamp: 0, Payload: []byte{byte(v >> 24), byte(v >> 16), byte(v >> 8), byte(v)}, CSID: 2}
				want = int(o.N[1]) & 3
			} else {
				sid := uint32(o.N[1])
				if o.N[1] < 0 {
					sid = lastSID[i]
				}
				lastSID[i] = sid
				m = ref.RTMPMsg{Type: byte(o.N[0]), StreamID: sid, Timestamp: uint32(o.N[2]), Payload: rtmpx.Body(kernel.Op{N: []int64{o.N[0], 0, 0, o.N[3], o.N[4]}}), CSID: csid(i)}
				if o.N[3] == 0 {
					m.Payload = []byte{}
				}
				want = int(o.N[5]) & 3
			}
			if o.K == "scs" {
				lastSID[0] = 0
			}
			ck.Start(m, want, form())
		}
		chunks++
	}
	if bad >= 1 && bad <= 3 && !t.badFired {
		// precondition never met (no unfinished message): the trace stays conformant
		if bad == 3 || true {
			if bad == 3 && inject() {
				t.badFired, t.badKind = true, 3
			}
		}
	}
	t.bytes = ck.Out
	t.expect = ck.Done
	t.hdr = ck.DoneHdr
	t.ext = ck.DoneExt
	return t
}

func sCur(s *ref.ChunkerStream) []byte { return s.CurPayload() }

func run(p *kernel.Plan) (res *kernel.Result) {
	res = &kernel.Result{}
	defer func() {
		if r := recover(); r != nil {
			res.Fail("C02/panic", "%v", r)
		}
	}()
	tape := kernel.NewTape(p)
	t := build(p, tape)
	if !t.valid {
		res.Invalid = true
		return
	}
	rejecting := t.badFired && (t.badKind >= 1 && t.badKind <= 3 || t.badKind == 5)
	// the reference parser must agree with the reference chunker on conformant traces
	if !rejecting && t.badKind != 4 {
		cp := ref.NewChunkParser()
		cp.Feed(t.bytes)
		if cp.Err != nil || len(cp.Msgs) != len(t.expect) || cp.Pending() != 0 {
			return res.Fail("harness/ref-disagree", "reference parser vs chunker: err=%v msgs %d/%d pending %d", cp.Err, len(cp.Msgs), len(t.expect), cp.Pending())
		}
		for i, m := range cp.Msgs {
			e := t.expect[i]
			if m.Type != e.Type || m.StreamID != e.StreamID || m.Timestamp != e.Timestamp || string(m.Payload) != string(e.Payload) {
				return res.Fail("harness/ref-disagree", "reference parser vs chunker differ at message %d: %+v vs %+v", i, m.Timestamp, e.Timestamp)
			}
		}
	}
	pipe := simnet.NewPipe("peer>reader", nil, tape)
	pipe.NoYield = true
	pipe.RSeg = int(p.C("rseg"))
	pipe.EOFData = p.C("eofdata") != 0
	pipe.Write(t.bytes)
	pipe.CloseWrite()
	relay := p.C("relay") != 0
	var out bytes.Buffer
	var outw io.Writer = io.Discard
	if relay {
		outw = &out
	}
	proto := rtmp.NewProtocol(struct {
		io.Reader
		io.Writer
	}{pipe, outw})
	var got []rtmpx.Msg
	var fwd []rtmpx.Msg // what the relay wrote, as the downstream peer has to read it
	var rerr error
	for {
		m, err := proto.ReadMessage()
		if err != nil {
			rerr = err
			break
		}
		if m == nil {
			return res.Fail("C02/nil-message", "ReadMessage returned (nil, nil)")
		}
		got = append(got, rtmpx.FromLib(m))
		if relay && m.MessageType > 6 && len(m.Payload) > 0 {
			// forward it: untouched, one byte shorter or one byte longer (a relay
			// that strips or adds something); now and then it announces another
			// chunk size for its own output first
			if tape.Next(8) == 0 {
				sc := rtmp.NewSetChunkSize()
				sc.ChunkSize = uint32([]int{1, 64, 128, 1000, 70000}[tape.Next(5)])
				if err := proto.WritePacket(sc, 0); err != nil {
					return res.Fail("C02/relay-write-error", "Set Chunk Size: %v", err)
				}
				b, _ := sc.MarshalBinary()
				fwd = append(fwd, rtmpx.Msg{Type: 1, Payload: b})
			}
			w := rtmpx.FromLib(m)
			w.Payload = append([]byte(nil), m.Payload...)
			switch tape.Next(4) {
			case 1:
				if len(m.Payload) > 1 {
					m.Payload = m.Payload[:len(m.Payload)-1]
					w.Payload = w.Payload[:len(w.Payload)-1]
				}
			case 2:
				m.Payload = append(m.Payload, 0x5a)
				w.Payload = append(w.Payload, 0x5a)
			}
			if err := proto.WriteMessage(m); err != nil {
				return res.Fail("C02/relay-write-error", "WriteMessage: %v", err)
			}
			fwd = append(fwd, w)
		}
		if len(got) > len(t.expect)+5 {
			break
		}
	}
	ck := t.ck
	res.Stat("traces", 1)
	res.Stat("messages", int64(len(t.expect)))
	for h := 0; h < 4; h++ {
		res.Stat(fmt.Sprintf("msgs_started_with_type%d", h), int64(ck.Hdr[h]))
	}
	res.Stat("chunks_with_extended_timestamp", int64(ck.Ext))
	res.Stat("type3_chunks_with_extended_timestamp", int64(ck.Ext3))
	res.Stat("basic_header_2byte", int64(ck.Form[2]))
	res.Stat("basic_header_3byte", int64(ck.Form[3]))
	res.Stat("interleaved_chunks", int64(ck.Interleav))
	res.Stat("short_reads", int64(pipe.St.ShortReads))
	res.Stat("one_byte_reads", int64(pipe.St.OneByteReads))
	if t.badFired {
		res.Stat(fmt.Sprintf("rule_breaking_trace_kind%d", t.badKind), 1)
	}
	res.Nontrivial = len(t.expect) > 0 || t.badFired
	res.Hash = kernel.HashBytes([]byte(fmt.Sprintf("%d|%d|%v|%d", len(t.bytes), len(got), rerr, pipe.St.Reads)))
	res.Inter = uint64(ck.Interleav)<<32 ^ uint64(pipe.St.Reads)<<8 ^ uint64(len(t.bytes))
	res.State = uint64(ck.Hdr[0])<<48 ^ uint64(ck.Hdr[1])<<36 ^ uint64(ck.Hdr[2])<<24 ^ uint64(ck.Hdr[3])<<12 ^ uint64(ck.Ext)<<4 ^ uint64(t.badKind)

	for i := 0; i < len(got) && i < len(t.expect); i++ {
		e := t.expect[i]
		w := rtmpx.Msg{Type: e.Type, SID: e.StreamID, TS: e.Timestamp & 0x7fffffff, Payload: e.Payload}
		if d := w.Diff(got[i]); d != "" {
			cls := ""
			if d == "timestamp" {
				cls = fmt.Sprintf(":type%d", t.hdr[i])
				if t.ext[i] {
					cls += "-ext"
				}
			}
			return res.Fail("C02/mismatch-"+d+cls, "message %d (chunk stream %d, started with a type-%d header, ext=%v): chunked %v (31-bit timestamp %#x), decoded %v", i, e.CSID, t.hdr[i], t.ext[i], w, w.TS, got[i])
		}
	}
	if len(got) > len(t.expect) {
		return res.Fail("C02/fabricated", "%d messages chunked (before any rule violation), %d decoded; extra %v", len(t.expect), len(got), got[len(t.expect)])
	}
	if rejecting {
		if len(got) < len(t.expect) {
			return res.Fail("C02/lost-before-violation", "rule-breaking trace kind %d: %d messages complete before the offending chunk, only %d decoded, then %v", t.badKind, len(t.expect), len(got), rerr)
		}
		if rerr == nil || oe.Cause(rerr) == io.EOF || oe.Cause(rerr) == io.ErrUnexpectedEOF {
			return res.Fail(fmt.Sprintf("C02/rule%d-not-enforced", t.badKind), "rule-breaking trace kind %d was not rejected: reader went on until %v", t.badKind, rerr)
		}
		return res
	}
	if len(got) < len(t.expect) {
		e := t.expect[len(got)]
		k := "C02/rejected-conformant"
		if t.badKind == 4 && len(got) == 0 {
			k = "C02/librtmp-ping-rejected"
		}
		c := oe.Cause(rerr)
		if c == io.EOF || c == io.ErrUnexpectedEOF {
			k = "C02/lost"
		}
		return res.Fail(fmt.Sprintf("%s:cs%s", k, csClass(e.CSID)), "%d messages chunked, %d decoded, then: %v; next expected on chunk stream %d: type %d len %d", len(t.expect), len(got), rerr, e.CSID, e.Type, len(e.Payload))
	}
	if relay {
		cp := ref.NewChunkParser()
		cp.Feed(out.Bytes())
		if cp.Err != nil || cp.Pending() != 0 || cp.OpenMessages() != 0 {
			return res.Fail("C02/relay-wire-nonconformant", "what the relay wrote does not parse: err=%v pending=%d open=%d after %d of %d forwarded messages", cp.Err, cp.Pending(), cp.OpenMessages(), len(cp.Msgs), len(fwd))
		}
		if len(cp.Msgs) != len(fwd) {
			return res.Fail("C02/relay-count", "the relay forwarded %d messages, its wire holds %d", len(fwd), len(cp.Msgs))
		}
		for i, m := range cp.Msgs {
			g := rtmpx.Msg{Type: m.Type, SID: m.StreamID, TS: m.Timestamp & 0x7fffffff, Payload: m.Payload}
			if d := fwd[i].Diff(g); d != "" {
				return res.Fail("C02/relay-mismatch-"+d, "forwarded message %d: handed to WriteMessage as %v, on the wire as %v (chunk stream %d)", i, fwd[i], g, m.CSID)
			}
		}
		res.Stat("messages_forwarded_by_the_relay", int64(len(fwd)))
	}
	if c := oe.Cause(rerr); c != io.EOF && c != io.ErrUnexpectedEOF {
		return res.Fail("C02/end-error", "after the last message the reader ended with %v, want root cause io.EOF", rerr)
	}
	return res
}

func csClass(c uint32) string {
	switch {
	case c <= 63:
		return "1byte"
	case c <= 319:
		return "64-319"
	}
	return "320+"
}

var Check = &kernel.Check{
	ID: "C02", Gen: gen, Run: run,
	Simpler: map[string][]int64{"rseg": {0}, "form": {0}, "bad": {0}, "cs1": {3}, "cs2": {4}, "cs3": {5}, "cs4": {6}, "cs5": {7}},
	Probes: func() map[string]*kernel.Plan {
		mk := func(cfg map[string]int64, ops ...kernel.Op) *kernel.Plan {
			return &kernel.Plan{Property: "C02", Cfg: cfg, Ops: ops}
		}
		return map[string]*kernel.Plan{
			"csid-320-3byte":  mk(map[string]int64{"cs1": 320}, kernel.Op{K: "m", T: 1, N: []int64{9, 1, 0, 2, 1, 0}}),
			"csid-64-3byte":   mk(map[string]int64{"cs1": 64, "form": 1}, kernel.Op{K: "m", T: 1, N: []int64{9, 1, 0, 2, 1, 0}}),
			// fixed: a relayed message from chunk stream 65 was written with id 65&0x3f
			"relay-high-chunk-stream": mk(map[string]int64{"cs2": 65, "relay": 1}, kernel.Op{K: "m", T: 2, N: []int64{7, -1, 0, 1, 0, 0}}),
			"librtmp-ping":    mk(map[string]int64{"bad": 4}, kernel.Op{K: "m", T: 1, N: []int64{9, 1, 0, 2, 1, 0}}),
			"type1-ext-delta": mk(map[string]int64{}, kernel.Op{K: "m", T: 1, N: []int64{9, 1, 10, 2, 1, 0}}, kernel.Op{K: "m", T: 1, N: []int64{9, 1, 10 + 0x1000000, 3, 2, 1}}),
			"type3-after-ext": mk(map[string]int64{}, kernel.Op{K: "m", T: 1, N: []int64{9, 1, 0x1000000, 2, 1, 0}}, kernel.Op{K: "m", T: 1, N: []int64{9, 1, 0x2000000, 2, 2, 3}}),
		}
	},
}

func TestCheck(t *testing.T) { kernel.Drive(t, Check) }
