// C08: if the transport under an RTMP connection or an FLV muxer/demuxer fails
// or ends at any byte position, the operation in progress returns a non-nil
// error whose root cause (errors.Cause) is exactly the transport's error; the
// items returned before are exactly those completely transferred.
//
// Fault enumeration: for each generated workload the fault-free run is
// recorded, then every position of one fault dimension is executed.
package c08

import (
	"bytes"
	"errors"
	"fmt"
	"io"
	"strings"
	"testing"

	oe "github.com/ossrs/go-oryx-lib/errors"
	"github.com/ossrs/go-oryx-lib/flv"
	"verif/sim/kernel"
	"verif/sim/ref"
	"verif/sim/rtmpx"
	"verif/sim/simnet"
)

// ---------- generation ----------

var dims = []string{"cutAB", "cutBA", "rerrAB", "rerrBA", "rerrnAB", "rerrnBA", "werr0AB", "werrpAB", "werraAB", "werr0BA", "werrpBA", "werraBA", "shortAB", "shortBA", "closeA", "closeB", "werr1AB", "werr1BA"}
var fdims = []string{"cut", "rerr", "rerrn", "werr0", "werrp", "werra", "short", "werr1"}

func gen(g *kernel.Rng, seed uint64, tier string) *kernel.Plan {
	p := &kernel.Plan{Property: "C08", Seed: seed, Cfg: map[string]int64{"enum": 1}}
	budget := int64(3000)
	if tier == "thorough" {
		budget = int64(g.OneOf(3000, 8000, 30000))
	}
	switch g.Pick(60, 35, 5) {
	case 0:
		p.Variant = "rtmp"
		p.Cfg["dim"] = int64(g.Intn(len(dims)))
		p.Cfg["hsfull"] = int64(g.Pick(9, 1))
		for _, k := range []string{"rsegA", "rsegB"} {
			p.Cfg[k] = int64(g.Pick(3, 1, 3, 1, 3))
		}
		for _, k := range []string{"wsegA", "wsegB"} {
			p.Cfg[k] = int64([]int{simnet.SegWhole, simnet.SegChunky, simnet.SegWhole, simnet.SegTape}[g.Intn(4)])
		}
		p.Cfg["post"] = int64(g.Pick(1, 3))
		n := g.Range(1, 8)
		for i := 0; i < n; i++ {
			e := g.Intn(2)
			if g.Bool(0.12) {
				p.Ops = append(p.Ops, kernel.Op{K: "scs", T: e, N: []int64{g.OneOf(1, 2, 64, 128, 129, 1000, 4096)}})
				continue
			}
			typ := g.OneOf(8, 9, 18, 20, 4, 5, 6, 22)
			ts := g.OneOf(0, 1, 0xFFFFFE, 0xFFFFFF, 0x1000000, 1<<31-1, int64(g.U32()>>1))
			ln := int64(g.OneOf(1, 5, 127, 128, 129, 256, 257, int64(g.Range(1, 700))))
			if g.Bool(0.1) {
				ln = int64(g.Range(1, int(budget)))
			}
			if i == 0 && g.Bool(0.15) {
				ln = int64(g.Range(4000, 9000)) // crosses the writer's 4096-byte buffer: a flush in the middle of the message
				budget += ln
			}
			if ln > budget {
				ln = 1 + ln%budget
			}
			budget -= ln
			if budget < 16 {
				budget = 16
			}
			p.Ops = append(p.Ops, kernel.Op{K: "msg", T: e, N: []int64{typ, g.OneOf(0, 1, int64(g.U32())), ts, ln, int64(g.U32())}})
		}
	case 1:
		p.Variant = "flv"
		p.Cfg["dim"] = int64(g.Intn(len(fdims)))
		p.Cfg["flags"] = int64(g.Intn(4))
		p.Cfg["rseg"] = int64(g.Pick(2, 2, 3, 2, 2))
		p.Cfg["eofdata"] = int64(g.Pick(2, 1))
		n := g.Range(0, 8)
		for i := 0; i < n; i++ {
			sz := g.OneOf(0, 1, 2, 11, 255, 256, int64(g.Range(0, 600)))
			if sz > budget {
				sz = sz % budget
			}
			budget -= sz
			if budget < 4 {
				budget = 4
			}
			p.Ops = append(p.Ops, kernel.Op{K: "tag", N: []int64{g.OneOf(8, 9, 18, int64(g.Intn(256))), g.OneOf(0, 0xFFFFFF, 0x1000000, 0xFFFFFFFF, int64(g.U32())), sz, int64(g.U32())}})
		}
	default:
		p.Variant = "errors"
		n := g.Range(0, 9)
		if g.Bool(0.25) {
			n = g.Range(10, 120) // "through any number of wrapping layers"
		}
		for i := 0; i < n; i++ {
			p.Ops = append(p.Ops, kernel.Op{K: []string{"WithStack", "WithMessage", "Wrap", "Wrapf", "Foreign"}[g.Pick(3, 3, 3, 3, 2)], S: []string{fmt.Sprintf("layer %d %s", i, []string{"", "a: b", "%v", "é"}[g.Intn(4)])}})
		}
		p.Cfg["root"] = int64(g.Intn(7))
	}
	p.Tape = kernel.GenTape(g, g.Range(0, 120), 0.25)
	p.TapeSeed = g.U64() | 1
	return p
}

// ---------- helpers ----------

func isOneOf(err error, set ...error) bool {
	c := oe.Cause(err)
	for _, e := range set {
		if c == e {
			return true
		}
	}
	return false
}

// chainOK checks that err.Error() is the ': '-joined chain of its layers and
// ends with the root's text.
func chainOK(err error) string {
	type causer interface{ Cause() error }
	e := err
	for i := 0; e != nil && i < 100; i++ {
		c, ok := e.(causer)
		if !ok {
			break
		}
		in := c.Cause()
		if in == nil {
			return fmt.Sprintf("layer %d (%T) has a nil cause", i, e)
		}
		if e.Error() != in.Error() && !strings.HasSuffix(e.Error(), ": "+in.Error()) {
			return fmt.Sprintf("layer %d text %q does not end with ': ' + inner text %q", i, e.Error(), in.Error())
		}
		e = in
	}
	root := oe.Cause(err)
	if root == nil {
		return "Cause() of a non-nil error is nil"
	}
	if !strings.HasSuffix(err.Error(), root.Error()) {
		return fmt.Sprintf("text %q does not end with the root's text %q", err.Error(), root.Error())
	}
	return ""
}

func causeName(err error) string {
	if err == nil {
		return "nil"
	}
	switch oe.Cause(err) {
	case io.EOF:
		return "io.EOF"
	case io.ErrUnexpectedEOF:
		return "io.ErrUnexpectedEOF"
	case io.ErrShortWrite:
		return "io.ErrShortWrite"
	case rtmpx.ErrInjRead:
		return "injected-read"
	case rtmpx.ErrInjWrite:
		return "injected-write"
	case simnet.ErrClosed:
		return "closed"
	case simnet.ErrPeerGone:
		return "peer-gone"
	}
	return "other"
}

// ---------- RTMP ----------

type dirBase struct {
	T    int64
	E    []int64
	Msgs []rtmpx.Msg
	R, W int
}

type rbase struct {
	AB, BA dirBase
	steps  int
}

func mkDirBase(from *rtmpx.End) dirBase {
	d := dirBase{T: from.Conn.Out.Total, R: from.Conn.Out.St.Reads, W: from.Conn.Out.St.Writes}
	for _, s := range from.Sent {
		d.E = append(d.E, s.EndOff)
		d.Msgs = append(d.Msgs, s.Msg)
	}
	return d
}

func sess(p *kernel.Plan) *rtmpx.Session {
	s := rtmpx.NewSession(p, kernel.ModePlain, 300000)
	s.Run()
	return s
}

func baselineRTMP(p *kernel.Plan) (*rbase, string) {
	q := p.Clone()
	q.Faults = nil
	s := sess(q)
	if s.Err != nil {
		return nil, fmt.Sprintf("baseline did not finish: %v %v", s.Err, s.Stuck)
	}
	if _, ok := s.S.FirstPanic(); ok {
		return nil, "baseline panicked"
	}
	for _, pr := range [][2]*rtmpx.End{{s.A, s.B}, {s.B, s.A}} {
		from, to := pr[0], pr[1]
		if from.HsErr != nil {
			return nil, "baseline handshake failed: " + from.HsErr.Error()
		}
		if len(to.Recv) != len(from.Sent) || !isOneOf(to.RecvErr, io.EOF, io.ErrUnexpectedEOF) {
			return nil, fmt.Sprintf("baseline %s>%s: sent %d received %d err %v", from.Name, to.Name, len(from.Sent), len(to.Recv), to.RecvErr)
		}
		for i := range to.Recv {
			if from.Sent[i].Err != nil || !from.Sent[i].Msg.Equal(to.Recv[i]) {
				return nil, "baseline message mismatch"
			}
		}
	}
	return &rbase{AB: mkDirBase(s.A), BA: mkDirBase(s.B), steps: s.S.Steps}, ""
}

// evalRTMP judges one faulted run against the baseline.
func evalRTMP(res *kernel.Result, b *rbase, s *rtmpx.Session, f kernel.Fault) {
	fail := func(key, format string, a ...any) {
		res.Fail("C08/"+key, "fault %+v: "+format, append([]any{f}, a...)...)
	}
	if t, ok := s.S.FirstPanic(); ok {
		fail("panic", "task %s: %v\n%s", t.Name, t.Panic, t.Stack)
		return
	}
	if s.Err == kernel.ErrSteps {
		res.Fail("harness/step-limit", "%v", s.Err)
		return
	}
	if s.Err != nil {
		fail("no-progress", "%v: %v", s.Err, s.Stuck)
		return
	}
	type dir struct {
		name     string
		from, to *rtmpx.End
		pipe     *simnet.Pipe
		base     *dirBase
	}
	dirs := []dir{{"A>B", s.A, s.B, s.A.Conn.Out, &b.AB}, {"B>A", s.B, s.A, s.B.Conn.Out, &b.BA}}
	// every error observed keeps its message chain
	var allErrs []error
	for _, e := range []*rtmpx.End{s.A, s.B} {
		allErrs = append(allErrs, e.HsErr, e.RecvErr)
		for _, st := range e.Sent {
			allErrs = append(allErrs, st.Err)
		}
	}
	for _, e := range allErrs {
		if e != nil && !strings.HasPrefix(e.Error(), "handshake-mismatch") {
			if m := chainOK(e); m != "" {
				fail("message-chain", "%s", m)
				return
			}
		}
	}
	for _, d := range dirs {
		from, to, pipe := d.from, d.to, d.pipe
		// ---- writer side of this direction ----
		for i, st := range from.Sent {
			if st.Err == nil {
				if i >= len(d.base.E) || st.EndOff != d.base.E[i] {
					fail("write-nil-incomplete", "%s: write %d of %v returned nil but %d bytes were accepted by the transport, the complete message ends at %d", d.name, i, st.Msg, st.EndOff, d.base.E[i])
					return
				}
				// an error-free short write is a transport breaking the io.Writer
				// contract, not a failure: a library that writes the rest (as
				// bufio's large-write path does) and delivers the whole message may
				// return nil; that completeness was checked just above
				if pipe.WFaultFired && !strings.HasPrefix(f.K, "short") && pipe.WFaultCall >= st.W0 && pipe.WFaultCall < st.W1 {
					fail("write-error-swallowed", "%s: transport write call %d failed during write %d of %v but the call returned nil", d.name, pipe.WFaultCall, i, st.Msg)
					return
				}
				continue
			}
			if i != len(from.Sent)-1 {
				fail("harness-bug", "%s: failed write is not the last", d.name)
				return
			}
			switch {
			case pipe.WFaultFired && pipe.WFaultCall >= st.W0 && pipe.WFaultCall < st.W1:
				want := error(rtmpx.ErrInjWrite)
				if strings.HasPrefix(f.K, "short") {
					want = io.ErrShortWrite
				}
				if oe.Cause(st.Err) != want {
					fail("write-cause:"+causeName(st.Err), "%s: write %d failed with %q, root cause %v, want exactly %v", d.name, i, st.Err, oe.Cause(st.Err), want)
					return
				}
			case from.ClosedByFault:
				if oe.Cause(st.Err) != simnet.ErrClosed {
					fail("write-cause:"+causeName(st.Err), "%s: write %d on a closed connection failed with %q, root cause %v, want %v", d.name, i, st.Err, oe.Cause(st.Err), simnet.ErrClosed)
					return
				}
			default:
				fail("write-error-unexplained", "%s: write %d of %v failed with %q although no fault hit it", d.name, i, st.Msg, st.Err)
				return
			}
		}
		if pipe.WFaultFired && !strings.HasPrefix(f.K, "short") {
			explained := pipe.WFaultCall >= from.HsW0 && pipe.WFaultCall < from.HsW1 && from.HsErr != nil
			for _, st := range from.Sent {
				if pipe.WFaultCall >= st.W0 && pipe.WFaultCall < st.W1 && st.Err != nil {
					explained = true
				}
			}
			if !explained {
				fail("write-error-swallowed", "%s: transport write call %d failed but no call of %s reported an error (handshake err %v)", d.name, pipe.WFaultCall, from.Name, from.HsErr)
				return
			}
		}
		// ---- reader side of this direction ----
		var D int64
		var causes []error
		switch {
		case pipe.RErrFired:
			D, causes = pipe.RErrConsumed, []error{rtmpx.ErrInjRead}
		case to.Crashed && (to.RecvErr == nil || isOneOf(to.RecvErr, simnet.ErrClosed)) && to.HsErr == nil:
			D, causes = to.CloseInConsumed, []error{simnet.ErrClosed}
		default:
			D = pipe.Total
			if pipe.CutAt >= 0 && pipe.CutAt < D {
				D = pipe.CutAt
			}
			causes = []error{io.EOF, io.ErrUnexpectedEOF}
		}
		// handshake verdict of the receiving endpoint
		ownWriteFault := to.Conn.Out.WFaultFired && to.Conn.Out.WFaultCall >= to.HsW0 && to.Conn.Out.WFaultCall < to.HsW1
		if to.HsErr != nil {
			if strings.HasPrefix(to.HsErr.Error(), "handshake-mismatch") {
				fail("handshake-data", "%s: %v", to.Name, to.HsErr)
				return
			}
			var want []error
			switch {
			case ownWriteFault && strings.HasPrefix(f.K, "short"):
				want = []error{io.ErrShortWrite}
			case ownWriteFault:
				want = []error{rtmpx.ErrInjWrite}
			case to.ClosedByFault:
				want = []error{simnet.ErrClosed}
			case pipe.RErrFired:
				want = []error{rtmpx.ErrInjRead}
			case D < rtmpx.HandshakeBytes:
				want = []error{io.EOF, io.ErrUnexpectedEOF}
			default:
				fail("handshake-error-unexplained", "%s failed its handshake with %q although %d handshake bytes were delivered and nothing failed", to.Name, to.HsErr, D)
				return
			}
			if !isOneOf(to.HsErr, want...) {
				fail("handshake-cause:"+causeName(to.HsErr), "%s: handshake failed at %q with %q, root cause %v, want one of %v", to.Name, to.HsStage, to.HsErr, oe.Cause(to.HsErr), want)
				return
			}
			if len(to.Recv) != 0 {
				fail("fabricated", "%s returned %d messages after a failed handshake", to.Name, len(to.Recv))
				return
			}
			continue
		}
		if D < rtmpx.HandshakeBytes && !pipe.RErrFired && !to.Crashed {
			fail("handshake-incomplete-accepted", "%s completed its handshake although only %d of %d handshake bytes were delivered", to.Name, D, rtmpx.HandshakeBytes)
			return
		}
		var exp []rtmpx.Msg
		for i, e := range d.base.E {
			if e <= D {
				exp = append(exp, d.base.Msgs[i])
			}
		}
		for i := 0; i < len(exp) && i < len(to.Recv); i++ {
			if df := exp[i].Diff(to.Recv[i]); df != "" {
				fail("mismatch-"+df, "%s: message %d: completely transferred %v, returned %v", d.name, i, exp[i], to.Recv[i])
				return
			}
		}
		if len(to.Recv) > len(exp) {
			fail("returned-incomplete", "%s: %d bytes were delivered, which hold %d complete messages, but %d were returned with nil error; extra: %v", d.name, D, len(exp), len(to.Recv), to.Recv[len(exp)])
			return
		}
		if len(to.Recv) < len(exp) {
			fail("lost-complete:"+causeName(to.RecvErr), "%s: %d bytes were delivered, which hold %d complete messages, but only %d were returned before %v", d.name, D, len(exp), len(to.Recv), to.RecvErr)
			return
		}
		if to.RecvErr == nil {
			fail("nil-error", "%s: reader of %s ended without an error", d.name, to.Name)
			return
		}
		if !isOneOf(to.RecvErr, causes...) {
			fail("read-cause:"+causeName(to.RecvErr), "%s: read failed with %q, root cause %v (%T), want one of %v", d.name, to.RecvErr, oe.Cause(to.RecvErr), oe.Cause(to.RecvErr), causes)
			return
		}
	}
}

func rtmpFaults(p *kernel.Plan, b *rbase) []kernel.Fault {
	dim := dims[int(p.C("dim"))%len(dims)]
	w := dim[len(dim)-2:]
	db := &b.AB
	if w == "BA" {
		db = &b.BA
	}
	var out []kernel.Fault
	switch {
	case strings.HasPrefix(dim, "cut"):
		for k := int64(0); k <= db.T; k++ {
			if k < rtmpx.HandshakeBytes-3 && p.C("hsfull") == 0 {
				// handshake region: boundaries +-2 and a stride
				near := false
				for _, bd := range []int64{0, 1, 1537, 3073} {
					if k >= bd-2 && k <= bd+2 {
						near = true
					}
				}
				if !near && k%97 != int64(p.Seed%97) {
					continue
				}
			}
			out = append(out, kernel.Fault{K: "cut", W: w, At: k})
		}
	case strings.HasPrefix(dim, "rerrn"):
		for j := 0; j < db.R; j++ {
			out = append(out, kernel.Fault{K: "rerr", W: w, At: int64(j), Arg: int64(1 + j%7)})
		}
	case strings.HasPrefix(dim, "rerr"):
		for j := 0; j < db.R; j++ {
			out = append(out, kernel.Fault{K: "rerr", W: w, At: int64(j)})
		}
	case strings.HasPrefix(dim, "werr"):
		for j := 0; j < db.W; j++ {
			arg := int64(0)
			kind := "werr"
			switch dim[4] {
			case 'p':
				arg = int64(1 + j%5)
			case 'a':
				arg = 1 << 40
			case '1':
				kind = "werr1" // transient: only this one write call fails
			}
			out = append(out, kernel.Fault{K: kind, W: w, At: int64(j), Arg: arg})
		}
	case strings.HasPrefix(dim, "short"):
		for j := 0; j < db.W; j++ {
			out = append(out, kernel.Fault{K: "short", W: w, At: int64(j), Arg: int64(j % 3 * 700)})
		}
	case strings.HasPrefix(dim, "close"):
		for st := 0; st <= b.steps; st++ {
			out = append(out, kernel.Fault{K: "close", W: dim[5:], At: int64(st)})
		}
	}
	return out
}

func runRTMP(p *kernel.Plan, res *kernel.Result) {
	for _, o := range p.Ops {
		switch o.K {
		case "msg":
			if len(o.N) < 5 || o.N[3] < 1 || o.N[3] > 1<<24-1 || o.N[2] < 0 || o.N[2] >= 1<<31 || o.N[0] == 1 {
				res.Invalid = true
				return
			}
		case "scs":
			if len(o.N) < 1 || o.N[0] < 1 || o.N[0] > 1<<31-1 {
				res.Invalid = true
				return
			}
		default:
			res.Invalid = true
			return
		}
	}
	b, why := baselineRTMP(p)
	if b == nil {
		res.Fail("C08/baseline", "the fault-free session already fails (see C01): %s", why)
		return
	}
	var faults []kernel.Fault
	if len(p.Faults) > 0 {
		faults = p.Faults[:1]
	} else if p.C("enum") != 0 {
		faults = rtmpFaults(p, b)
	}
	faults = capPositions(faults, p.Seed)
	body := p.BodyHash()
	for _, f := range faults {
		q := p.Clone()
		q.Faults = []kernel.Fault{f}
		q.Cfg["enum"] = 0
		s := sess(q)
		res.Evals++
		evalRTMP(res, b, s, f)
		s.ApplyStats(res)
		res.Stat("fault_positions_rtmp_"+f.K, 1)
		if s.A.ClosedByFault || s.B.ClosedByFault {
			res.Stat("fault_close", 1)
		}
		res.NontrivialKeys = append(res.NontrivialKeys, body^uint64(f.At+1)*0x9e3779b97f4a7c15^uint64(len(f.K))<<56^uint64(f.Arg))
		if res.Key != "" {
			res.SubPlan = q
			return
		}
	}
	res.Stat("workloads_rtmp", 1)
}

// capPositions keeps enumeration of one workload bounded: beyond maxPositions
// the positions are thinned with a seed-dependent stride (the first and last
// 200 are always kept). Workloads of the quick tier stay below the cap.
const maxPositions = 12000

func capPositions(f []kernel.Fault, seed uint64) []kernel.Fault {
	if len(f) <= maxPositions {
		return f
	}
	stride := (len(f) + maxPositions - 1) / maxPositions
	off := int(seed % uint64(stride))
	var out []kernel.Fault
	for i, x := range f {
		if i < 200 || i >= len(f)-200 || i%stride == off {
			out = append(out, x)
		}
	}
	return out
}

// ---------- FLV ----------

type ftag struct {
	t    ref.FLVTag
	end  int64
	hend int64
}

func runFLV(p *kernel.Plan, res *kernel.Result) {
	var tags []ftag
	hv, ha := p.C("flags")&1 != 0, p.C("flags")&2 != 0
	file := ref.FLVWriteHeader(hv, ha)
	for _, o := range p.Ops {
		if o.K != "tag" || len(o.N) < 4 || o.N[2] < 0 || o.N[2] > 1<<24-1 {
			res.Invalid = true
			return
		}
		t := ref.FLVTag{Type: byte(o.N[0]), Timestamp: uint32(o.N[1]), Body: kernel.Fill(int(o.N[2]), uint64(o.N[3]))}
		hend := int64(len(file)) + 11
		file = append(file, ref.FLVWriteTag(t)...)
		tags = append(tags, ftag{t, int64(len(file)), hend})
	}
	// baseline write: count write calls
	wcalls := func() int {
		d := simnet.NewPipe("disk", nil, kernel.NewTape(p))
		d.NoYield = true
		mx, _ := flv.NewMuxer(d)
		mx.WriteHeader(hv, ha)
		for _, t := range tags {
			mx.WriteTag(flv.TagType(t.t.Type), t.t.Timestamp, t.t.Body)
		}
		return d.St.Writes
	}()
	rcalls := func() int {
		d := simnet.NewPipe("disk", nil, kernel.NewTape(p))
		d.NoYield = true
		d.RSeg = int(p.C("rseg"))
		d.Write(file)
		d.CloseWrite()
		n, ok := demux(d, nil, tags, int64(len(file)), []error{io.EOF, io.ErrUnexpectedEOF}, hv, ha)
		if ok != "" || n != len(tags) {
			res.Fail("C08/baseline", "fault-free FLV read fails (see C09): %s", ok)
		}
		return d.St.Reads
	}()
	if res.Key != "" {
		return
	}
	var faults []kernel.Fault
	if len(p.Faults) > 0 {
		faults = p.Faults[:1]
	} else if p.C("enum") != 0 {
		switch fdims[int(p.C("dim"))%len(fdims)] {
		case "cut":
			for k := 0; k <= len(file); k++ {
				faults = append(faults, kernel.Fault{K: "cut", At: int64(k)})
			}
		case "rerr":
			for j := 0; j < rcalls; j++ {
				faults = append(faults, kernel.Fault{K: "rerr", At: int64(j)})
			}
		case "rerrn":
			for j := 0; j < rcalls; j++ {
				faults = append(faults, kernel.Fault{K: "rerr", At: int64(j), Arg: int64(1 + j%9)})
			}
		case "werr0":
			for j := 0; j < wcalls; j++ {
				faults = append(faults, kernel.Fault{K: "werr", At: int64(j)})
			}
		case "werrp":
			for j := 0; j < wcalls; j++ {
				faults = append(faults, kernel.Fault{K: "werr", At: int64(j), Arg: int64(1 + j%4)})
			}
		case "werra":
			for j := 0; j < wcalls; j++ {
				faults = append(faults, kernel.Fault{K: "werr", At: int64(j), Arg: 1 << 40})
			}
		case "werr1":
			for j := 0; j < wcalls; j++ {
				faults = append(faults, kernel.Fault{K: "werr1", At: int64(j)})
			}
		case "short":
			for j := 0; j < wcalls; j++ {
				faults = append(faults, kernel.Fault{K: "short", At: int64(j), Arg: int64(j % 3)})
			}
		}
	}
	faults = capPositions(faults, p.Seed)
	body := p.BodyHash()
	for _, f := range faults {
		res.Evals++
		res.Stat("fault_positions_flv_"+f.K, 1)
		res.NontrivialKeys = append(res.NontrivialKeys, body^uint64(f.At+1)*0x9e3779b97f4a7c15^uint64(len(f.K))<<56^uint64(f.Arg))
		flvOne(p, res, f, file, tags, hv, ha)
		if res.Key != "" {
			q := p.Clone()
			q.Faults = []kernel.Fault{f}
			q.Cfg["enum"] = 0
			res.SubPlan = q
			return
		}
	}
	res.Stat("workloads_flv", 1)
}

// demux reads d with the real demuxer and checks: tags returned are exactly the
// tags complete within D bytes, then an error with one of the causes.
func demux(d *simnet.Pipe, res *kernel.Result, tags []ftag, D int64, causes []error, hv, ha bool) (int, string) {
	dm, _ := flv.NewDemuxer(d)
	ver, v, a, err := dm.ReadHeader()
	if D < 13 {
		if err == nil {
			return 0, fmt.Sprintf("ReadHeader returned nil error with only %d of 13 header bytes available", D)
		}
		if !isOneOf(err, causes...) {
			return 0, fmt.Sprintf("cause: ReadHeader failed with %q, root cause %v, want one of %v", err, oe.Cause(err), causes)
		}
		return 0, ""
	}
	if err != nil {
		return 0, fmt.Sprintf("ReadHeader failed with %v although the 13 header bytes were available", err)
	}
	if ver != 1 || v != hv || a != ha {
		return 0, "header values differ"
	}
	n := 0
	for {
		tt, sz, ts, err := dm.ReadTagHeader()
		if err != nil {
			if m := chainOK(err); m != "" {
				return n, "chain: " + m
			}
			if n < len(tags) && tags[n].end <= D {
				return n, fmt.Sprintf("lost: tag %d is complete within the %d available bytes but ReadTagHeader failed with %v", n, D, err)
			}
			if !isOneOf(err, causes...) {
				return n, fmt.Sprintf("cause: ReadTagHeader failed with %q, root cause %v, want one of %v", err, oe.Cause(err), causes)
			}
			return n, ""
		}
		if n >= len(tags) || tags[n].hend > D {
			return n, fmt.Sprintf("incomplete: ReadTagHeader %d returned nil error but the tag header is not completely available (%d bytes)", n, D)
		}
		w := tags[n].t
		if byte(tt) != w.Type || ts != w.Timestamp || int(sz) != len(w.Body) {
			return n, fmt.Sprintf("mismatch: tag header %d differs from what was written", n)
		}
		body, err := dm.ReadTag(sz)
		if err != nil {
			if m := chainOK(err); m != "" {
				return n, "chain: " + m
			}
			if tags[n].end <= D {
				return n, fmt.Sprintf("lost: tag %d is complete within the %d available bytes but ReadTag failed with %v", n, D, err)
			}
			if !isOneOf(err, causes...) {
				return n, fmt.Sprintf("cause: ReadTag failed with %q, root cause %v, want one of %v", err, oe.Cause(err), causes)
			}
			return n, ""
		}
		if tags[n].end > D {
			return n, fmt.Sprintf("incomplete: ReadTag %d returned %d bytes with nil error but the tag ends at %d and only %d bytes are available", n, len(body), tags[n].end, D)
		}
		if !bytes.Equal(body, w.Body) {
			return n, fmt.Sprintf("mismatch: tag body %d differs", n)
		}
		n++
	}
}

func classify(msg string) string {
	if i := strings.Index(msg, ":"); i > 0 && i < 12 {
		return msg[:i]
	}
	return "other"
}

func flvOne(p *kernel.Plan, res *kernel.Result, f kernel.Fault, file []byte, tags []ftag, hv, ha bool) {
	defer func() {
		if r := recover(); r != nil {
			res.Fail("C08/panic", "flv fault %+v: %v", f, r)
		}
	}()
	tape := kernel.NewTape(p)
	switch f.K {
	case "cut", "rerr":
		d := simnet.NewPipe("disk", nil, tape)
		d.NoYield = true
		d.RSeg = int(p.C("rseg"))
		d.EOFData = p.C("eofdata") != 0
		causes := []error{io.EOF, io.ErrUnexpectedEOF}
		D := int64(len(file))
		if f.K == "cut" {
			d.CutAt = f.At
			if f.At < D {
				D = f.At
			}
		} else {
			d.RErrAt, d.RErrN, d.RErr, d.RErrStick = int(f.At), int(f.Arg), rtmpx.ErrInjRead, true
		}
		d.Write(file)
		d.CloseWrite()
		if f.K == "rerr" {
			// the number of bytes delivered is known only after the run; run
			// once to learn it, then judge a second identical run
			probe := simnet.NewPipe("disk", nil, kernel.NewTape(p))
			probe.NoYield = true
			probe.RSeg = int(p.C("rseg"))
			probe.EOFData = d.EOFData
			probe.RErrAt, probe.RErrN, probe.RErr, probe.RErrStick = int(f.At), int(f.Arg), rtmpx.ErrInjRead, true
			probe.Write(file)
			probe.CloseWrite()
			func() {
				defer func() { recover() }()
				dm, _ := flv.NewDemuxer(probe)
				if _, _, _, err := dm.ReadHeader(); err != nil {
					return
				}
				for {
					_, sz, _, err := dm.ReadTagHeader()
					if err != nil {
						return
					}
					if _, err := dm.ReadTag(sz); err != nil {
						return
					}
				}
			}()
			if !probe.RErrFired {
				return // read index beyond the file: nothing injected
			}
			D = probe.RErrConsumed
			causes = []error{rtmpx.ErrInjRead}
		}
		_, msg := demux(d, res, tags, D, causes, hv, ha)
		if msg != "" {
			res.Fail("C08/flv-read-"+classify(msg), "fault %+v, %d bytes available of %d: %s", f, D, len(file), msg)
		}
		res.Stat("fault_cut", int64(d.St.Cuts))
		res.Stat("fault_read_error", int64(d.St.ReadErrs))
		res.Stat("short_reads", int64(d.St.ShortReads))
	case "werr", "werr1", "short":
		d := simnet.NewPipe("disk", nil, tape)
		d.NoYield = true
		d.Record = true
		want := error(rtmpx.ErrInjWrite)
		if f.K == "werr" || f.K == "werr1" {
			d.WErrAt, d.WErrN, d.WErr, d.WErrStick = int(f.At), int(f.Arg), rtmpx.ErrInjWrite, f.K == "werr"
		} else {
			d.ShortAt, d.ShortN = int(f.At), int(f.Arg)
			want = io.ErrShortWrite
		}
		mx, _ := flv.NewMuxer(d)
		check := func(what string, err error, w0, w1 int) bool {
			hit := d.WFaultFired && d.WFaultCall >= w0 && d.WFaultCall < w1
			if err == nil && hit && f.K == "short" {
				return true // the rest may have been written by a later call: completeness is judged on the file below
			}
			if err == nil && hit {
				res.Fail("C08/flv-write-error-swallowed", "fault %+v: %s returned nil although transport write call %d failed/was short", f, what, d.WFaultCall)
				return false
			}
			if err != nil {
				if !hit {
					res.Fail("C08/flv-write-error-unexplained", "fault %+v: %s failed with %v", f, what, err)
					return false
				}
				if m := chainOK(err); m != "" {
					res.Fail("C08/message-chain", "%s", m)
					return false
				}
				if oe.Cause(err) != want {
					res.Fail("C08/flv-write-cause:"+causeName(err), "fault %+v: %s failed with %q, root cause %v, want exactly %v", f, what, err, oe.Cause(err), want)
				}
				return false
			}
			return true
		}
		w0 := d.St.Writes
		err := mx.WriteHeader(hv, ha)
		ok := check("WriteHeader", err, w0, d.St.Writes)
		for i := 0; ok && i < len(tags); i++ {
			w0 = d.St.Writes
			err = mx.WriteTag(flv.TagType(tags[i].t.Type), tags[i].t.Timestamp, tags[i].t.Body)
			ok = check(fmt.Sprintf("WriteTag %d", i), err, w0, d.St.Writes)
		}
		res.Stat("fault_write_error", int64(d.St.WriteErrs))
		res.Stat("fault_short_write", int64(d.St.Shorts))
		if res.Key != "" || !d.WFaultFired {
			return
		}
		if ok && !bytes.Equal(d.Wire, file) {
			res.Fail("C08/flv-write-nil-incomplete", "fault %+v: every muxer call returned nil but only %d of %d bytes reached the disk", f, len(d.Wire), len(file))
			return
		}
		// the durable bytes are a torn file: a prefix of the complete file
		if !bytes.HasPrefix(file, d.Wire) {
			res.Fail("C08/flv-torn-not-prefix", "fault %+v: durable bytes are not a prefix of the complete file", f)
			return
		}
		torn := simnet.NewPipe("disk", nil, kernel.NewTape(p))
		torn.NoYield = true
		torn.RSeg = int(p.C("rseg"))
		torn.EOFData = p.C("eofdata") != 0
		torn.Write(d.Wire)
		torn.CloseWrite()
		_, msg := demux(torn, res, tags, int64(len(d.Wire)), []error{io.EOF, io.ErrUnexpectedEOF}, hv, ha)
		if msg != "" {
			res.Fail("C08/flv-torn-"+classify(msg), "fault %+v, torn file of %d bytes: %s", f, len(d.Wire), msg)
		}
		res.Stat("torn_files_read", 1)
	}
}

// ---------- errors constructors ----------

type plainErr struct{ s string }

func (e *plainErr) Error() string { return e.s }

// foreignErr is an application error type that implements Cause() itself.
type foreignErr struct {
	msg   string
	inner error
}

func (e *foreignErr) Error() string { return e.msg + ": " + e.inner.Error() }
func (e *foreignErr) Cause() error  { return e.inner }

func runErrors(p *kernel.Plan, res *kernel.Result) {
	roots := []error{io.EOF, errors.New("root cause"), &plainErr{"plain: with colon"}, oe.New("oryx new"), oe.Errorf("oryx %v", 42), rtmpx.ErrInjRead, fmt.Errorf("read tcp: %w", errors.New("connection reset"))}
	root := roots[int(p.C("root"))%len(roots)]
	// nil stays nil through every constructor
	if oe.WithStack(nil) != nil || oe.WithMessage(nil, "m") != nil || oe.Wrap(nil, "m") != nil || oe.Wrapf(nil, "m %d", 1) != nil || oe.Cause(nil) != nil {
		res.Fail("C08/errors-nil", "a constructor or Cause maps nil to non-nil")
		return
	}
	err := root
	text := root.Error()
	for _, o := range p.Ops {
		if len(o.S) < 1 {
			res.Invalid = true
			return
		}
		m := o.S[0]
		switch o.K {
		case "WithStack":
			err = oe.WithStack(err)
		case "WithMessage":
			err = oe.WithMessage(err, m)
			text = m + ": " + text
		case "Wrap":
			err = oe.Wrap(err, m)
			text = m + ": " + text
		case "Wrapf":
			err = oe.Wrapf(err, "%s", m)
			text = m + ": " + text
		case "Foreign":
			err = &foreignErr{m, err}
			text = m + ": " + text
		default:
			res.Invalid = true
			return
		}
		if err == nil {
			res.Fail("C08/errors-nil", "%s of a non-nil error returned nil", o.K)
			return
		}
	}
	wantRoot := root
	// oryx fundamental errors are their own root
	if oe.Cause(err) != wantRoot {
		res.Fail("C08/errors-cause", "Cause after %d layers = %v (%T), want the root %v", len(p.Ops), oe.Cause(err), oe.Cause(err), root)
		return
	}
	if err.Error() != text {
		res.Fail("C08/errors-text", "Error() = %q, want %q", err.Error(), text)
		return
	}
	if m := chainOK(err); m != "" {
		res.Fail("C08/errors-chain", "%s", m)
		return
	}
	res.Stat("error_nestings", 1)
	res.NontrivialKeys = append(res.NontrivialKeys, p.BodyHash())
}

func run(p *kernel.Plan) (res *kernel.Result) {
	res = &kernel.Result{}
	defer func() {
		if r := recover(); r != nil {
			res.Fail("C08/panic", "%v", r)
		}
		if res.Evals > 0 {
			res.Nontrivial = true
		}
		if res.Evals == 0 {
			res.Evals = 1
			if p.Variant == "errors" && res.Key == "" {
				res.Nontrivial = true
			}
		}
	}()
	switch p.Variant {
	case "rtmp":
		runRTMP(p, res)
	case "flv":
		runFLV(p, res)
	case "errors":
		runErrors(p, res)
	default:
		res.Invalid = true
	}
	return res
}

var Check = &kernel.Check{
	ID: "C08", Gen: gen, Run: run,
	Simpler: map[string][]int64{"rsegA": {0}, "rsegB": {0}, "wsegA": {0}, "wsegB": {0}, "post": {0}, "rseg": {0}, "flags": {0}},
}

func TestCheck(t *testing.T) { kernel.Drive(t, Check) }
