// C14: for any sequence of frames sent by a peer, the reader delivers exactly
// the messages a conformant RFC 6455 receiver would, up to the first rule
// violation, where reading fails permanently and a Close frame with status 1002
// is sent; 64-bit lengths with the top bit set are never accepted; the read
// limit is enforced under any framing; pings are answered with pongs; a cut
// stream ends in an error, never in a short message.
//
// Real Conn (client or server role, established through the real handshake);
// the peer is the reference frame encoder (stub); the sim transport decides
// segmentation and the cut.
package c14

import (
	"time"
	"bytes"
	"fmt"
	"io"
	"testing"
	"unicode/utf8"

	"github.com/ossrs/go-oryx-lib/websocket"
	"verif/sim/kernel"
	"verif/sim/ref"
	"verif/sim/simnet"
	"verif/sim/wsx"
)

// op "f": N = [opcode, fin, rsv, maskRight, lenKind, len, seed, closeCode, closeKind]
// lenKind: 0 exact (minimal form), 1 declared 2^31 (payload of len bytes, then the stream ends),
//          2 declared 2^63-1, 3 declared 2^63, 4 declared 2^64-1, 5 declared 2^64-len (wraps a signed accumulator)
// closeKind (close frames): 0 empty body, 1 code only, 2 code + valid UTF-8 reason, 3 code + invalid UTF-8 reason

const (
	iOp = iota
	iFin
	iRsv
	iMask
	iLenKind
	iLen
	iSeed
	iCode
	iCloseKind
)

var goodCodes = []int64{1000, 1001, 1002, 1003, 1007, 1008, 1009, 1010, 1011, 3000, 4000, 4999}
var badCodes = []int64{0, 1, 999, 1004, 1005, 1006, 1015, 1016, 1100, 2000, 2999, 5000, 65535}

func frame(op, fin, ln int64, seed uint32) kernel.Op {
	return kernel.Op{K: "f", N: []int64{op, fin, 0, 1, 0, ln, int64(seed), 1000, 1}}
}

func gen(g *kernel.Rng, seed uint64, tier string) *kernel.Plan {
	p := &kernel.Plan{Property: "C14", Seed: seed, Cfg: map[string]int64{}}
	p.Cfg["role"] = int64(g.Intn(2))
	p.Cfg["rseg"] = int64(g.Pick(3, 2, 3, 2, 3))
	p.Cfg["rb"] = g.OneOf(0, 1, 125, 256, 4096)
	p.Cfg["readapi"] = int64(g.Pick(3, 3, 2)) // 0 ReadMessage, 1 NextReader+ReadAll, 2 NextReader + a partial read, then on to the next message
	p.Cfg["cut"] = -1
	p.Cfg["limit"] = 0
	p.Cfg["comp"] = int64(g.Pick(4, 1))   // permessage-deflate negotiated (the stub sends no compressed message)
	p.Cfg["appwdl"] = int64(g.Pick(4, 1)) // the application's own write deadline has already passed
	p.Cfg["hst"] = g.OneOf(0, 0, 0, 200, 3000) // handshake timeout (ms); the session then idles longer than that before the first frame
	p.Cfg["eofdata"] = int64(g.Pick(2, 1))     // the transport returns its last bytes together with io.EOF
	var sizes []int64
	if g.Bool(0.25) {
		// short uniformly random sequences over the abstract alphabet
		n := g.Range(1, 4)
		for i := 0; i < n; i++ {
			op := g.OneOf(0, 1, 2, 8, 9, 10, 3, 11, 15)
			f := frame(op, int64(g.Intn(2)), g.OneOf(0, 1, 5, 125, 126, 200), g.U32())
			f.N[iRsv] = g.OneOf(0, 0, 0, 1, 2, 4)
			f.N[iMask] = int64(g.Pick(4, 1))
			f.N[iLenKind] = int64(g.Pick(12, 1, 1, 1, 1, 1))
			f.N[iCode] = append(goodCodes, badCodes...)[g.Intn(len(goodCodes)+len(badCodes))]
			f.N[iCloseKind] = int64(g.Intn(4))
			p.Ops = append(p.Ops, f)
			sizes = append(sizes, f.N[iLen])
		}
	} else {
		// a valid conversation ...
		n := g.Range(1, 8)
		for i := 0; i < n; i++ {
			switch g.Pick(6, 2, 1) {
			case 0:
				frames := g.Range(1, 4)
				typ := int64(g.Range(1, 2))
				total := int64(0)
				for k := 0; k < frames; k++ {
					op := typ
					if k > 0 {
						op = 0
					}
					fin := int64(0)
					if k == frames-1 {
						fin = 1
					}
					ln := g.OneOf(0, 1, 10, 125, 126, 127, 300, 65535, 65536, int64(g.Range(0, 3000)))
					total += ln
					p.Ops = append(p.Ops, frame(op, fin, ln, g.U32()))
					if g.Bool(0.15) { // control frame inside a fragmented message
						p.Ops = append(p.Ops, frame(g.OneOf(9, 10), 1, g.OneOf(0, 4, 125), g.U32()))
					}
				}
				sizes = append(sizes, total)
			case 1:
				p.Ops = append(p.Ops, frame(9, 1, g.OneOf(0, 1, 64, 125), g.U32()))
			default:
				p.Ops = append(p.Ops, frame(10, 1, g.OneOf(0, 7, 125), g.U32()))
			}
		}
		if g.Bool(0.3) {
			c := frame(8, 1, g.OneOf(0, 5, 60, 123), g.U32())
			c.N[iCode] = goodCodes[g.Intn(len(goodCodes))]
			c.N[iCloseKind] = int64(g.Pick(1, 2, 3))
			p.Ops = append(p.Ops, c)
		}
		// ... with one oddity in most plans
		if g.Bool(0.6) && len(p.Ops) > 0 {
			i := g.Intn(len(p.Ops))
			f := &p.Ops[i]
			switch g.Pick(2, 2, 2, 2, 2, 2, 1, 2, 2) {
			case 0:
				f.N[iRsv] = g.OneOf(1, 2, 4, 7)
			case 1:
				f.N[iOp] = g.OneOf(3, 4, 5, 6, 7, 11, 12, 13, 14, 15)
			case 2:
				f.N[iFin] = 1 - f.N[iFin]
			case 3:
				f.N[iMask] = 0
			case 4:
				f.N[iLenKind] = int64(g.Range(1, 5))
			case 5:
				f.N[iOp] = g.OneOf(0, 1, 2, 8, 9, 10)
			case 6:
				f.N[iLen] = g.OneOf(126, 127, 200) // oversized if it is a control frame
			case 7:
				if f.N[iOp] == 8 {
					f.N[iCode] = badCodes[g.Intn(len(badCodes))]
				} else {
					f.N[iOp], f.N[iFin], f.N[iCode], f.N[iCloseKind], f.N[iLen] = 8, 1, badCodes[g.Intn(len(badCodes))], int64(g.Range(1, 2)), 5
				}
			default:
				f.N[iOp], f.N[iFin], f.N[iCode], f.N[iCloseKind], f.N[iLen] = 8, 1, 1000, 3, 9
			}
		}
	}
	if g.Bool(0.45) && len(sizes) > 0 {
		s := sizes[g.Intn(len(sizes))]
		p.Cfg["limit"] = g.OneOf(1, s-1, s, s+1, s/2, 125, 65536)
		if p.Cfg["limit"] < 1 {
			p.Cfg["limit"] = 1
		}
	}
	if g.Bool(0.3) {
		p.Cfg["cut"] = -2 - int64(g.U32()>>1) // resolved against the stream length at run time
	}
	if p.Cfg["readapi"] == 2 {
		// partial reads hand out a prefix before the rest of the message has
		// been looked at: kept apart from cuts and limits
		p.Cfg["cut"], p.Cfg["limit"] = -1, 0
	}
	if p.Cfg["comp"] != 0 {
		for i := range p.Ops {
			// RSV1 alone on the first frame of a data message would announce a
			// compressed message; RSV1 alone on other frames is forbidden by
			// RFC 7692 but not among the rules the statement lists (the library,
			// like upstream, lets it pass): the stub keeps to RSV2/RSV3, which are
			// a violation whatever was negotiated
			if f := &p.Ops[i]; f.N[iRsv]&7 == 4 { // 4 = RSV1
				f.N[iRsv] = g.OneOf(5, 6, 7)
			}
		}
	}
	p.Tape = kernel.GenTape(g, g.Range(0, 100), 0.25)
	p.TapeSeed = g.U64() | 1
	return p
}

// ---------- stub peer: builds the frame stream ----------

type sframe struct {
	op         byte
	fin        bool
	rsv        byte
	maskRight  bool
	lenKind    int64
	declared   uint64
	payload    []byte
	start      int
	hdrEnd     int
	end        int
	closeCode  int
	closeKind  int64
	masked     bool
	key        [4]byte
}

func buildStream(p *kernel.Plan, stubMasks bool) (stream []byte, frames []sframe, ok bool) {
	for _, o := range p.Ops {
		if o.K != "f" || len(o.N) < 9 || o.N[iLen] < 0 || o.N[iLen] > 1<<20 || o.N[iOp] < 0 || o.N[iOp] > 15 {
			return nil, nil, false
		}
		f := sframe{op: byte(o.N[iOp]), fin: o.N[iFin] != 0, rsv: byte(o.N[iRsv] & 7), maskRight: o.N[iMask] != 0, lenKind: o.N[iLenKind], closeCode: int(o.N[iCode]), closeKind: o.N[iCloseKind]}
		pay := kernel.Fill(int(o.N[iLen]), uint64(o.N[iSeed]))
		if f.op == 1 || f.op == 0 || f.op >= 8 {
			for i := range pay {
				pay[i] = 32 + pay[i]%95 // ASCII: valid UTF-8
			}
		}
		if f.op == 8 {
			switch f.closeKind {
			case 0:
				pay = nil
			case 1:
				pay = []byte{byte(f.closeCode >> 8), byte(f.closeCode)}
			case 2:
				r := pay
				if len(r) > 123 {
					r = r[:123]
				}
				pay = append([]byte{byte(f.closeCode >> 8), byte(f.closeCode)}, r...)
			default:
				// an invalid UTF-8 reason: short, long and all invalid bytes, or valid
				// text ending in a multi-byte rune cut short
				r := pay
				if len(r) > 123 {
					r = r[:123]
				}
				var bad []byte
				switch uint64(o.N[iSeed]) % 3 {
				case 0:
					bad = []byte{'a', 0xff, 0xfe, 'b'}
				case 1:
					bad = bytes.Repeat([]byte{0xff}, 1+len(r))
					if len(bad) > 123 {
						bad = bad[:123]
					}
				default:
					if len(r) > 121 {
						r = r[:121]
					}
					bad = append(append([]byte{}, r...), 0xe2, 0x82) // a euro sign without its last byte
				}
				pay = append([]byte{byte(f.closeCode >> 8), byte(f.closeCode)}, bad...)
			}
			if o.N[iLen] > 125 { // oversized control frame requested
				pay = append(pay, bytes.Repeat([]byte{'x'}, int(o.N[iLen])-len(pay))...)
			}
		}
		f.payload = pay
		masked := stubMasks
		if !f.maskRight {
			masked = !stubMasks
		}
		key := [4]byte{byte(o.N[iSeed]), byte(o.N[iSeed] >> 8), byte(o.N[iSeed] >> 16), 0x5a}
		var b []byte
		switch f.lenKind {
		case 0:
			f.declared = uint64(len(pay))
			b = ref.WSEncode(f.fin, f.rsv, f.op, masked, key, pay, 0, 0, false)
		default:
			d := map[int64]uint64{1: 1 << 31, 2: 1<<63 - 1, 3: 1 << 63, 4: 1<<64 - 1, 5: uint64(1<<64-1) - uint64(len(pay)) + 1}[f.lenKind]
			if f.lenKind > 5 {
				return nil, nil, false
			}
			if d == 0 { // 2^64 - 0 wraps: use the largest value instead
				d = 1<<64 - 1
			}
			f.declared = d
			b = ref.WSEncode(f.fin, f.rsv, f.op, masked, key, pay, 64, int64(d), true)
		}
		f.masked, f.key = masked, key
		f.start = len(stream)
		f.hdrEnd = f.start + len(b) - len(pay)
		stream = append(stream, b...)
		f.end = len(stream)
		frames = append(frames, f)
	}
	return stream, frames, true
}

// ---------- model: a conformant RFC 6455 receiver ----------

type expect struct {
	started  [][2]interface{} // (type, payload so far) of every message whose first frame was accepted
	msgs     [][2]interface{} // (type, payload)
	pongs    [][]byte
	terminal string // proto | close | limit | eof
	either   string // second acceptable terminal ("" = none)
	third    string // third acceptable terminal ("" = none)
	code     int    // close code echoed (terminal close)
	topBit   bool
	at       int    // frame index of the terminal
	why      string
}

func validCloseCode(c int) (valid, known bool) {
	for _, g := range goodCodes {
		if int64(c) == g {
			return true, true
		}
	}
	if c >= 3000 && c <= 4999 {
		return true, true
	}
	if c == 1012 || c == 1013 || c == 1014 {
		return false, false // registered later than RFC 6455: verdict not demanded
	}
	return false, true
}

func model(frames []sframe, limit int64, cut int, streamLen int, stream []byte) (ex expect, ok bool) {
	if cut < 0 || cut > streamLen {
		cut = streamLen
	}
	open := false
	var typ byte
	var buf []byte
	var wire uint64
	for i, f := range frames {
		ex.at = i
		if cut < f.start+2 {
			ex.terminal, ex.why = "eof", "stream ends before the frame header"
			return ex, true
		}
		viol := ""
		switch {
		case f.rsv != 0:
			viol = "reserved bits set"
		case f.op >= 3 && f.op <= 7 || f.op >= 11:
			viol = "reserved opcode"
		case f.op >= 8 && !f.fin:
			viol = "fragmented control frame"
		case f.op >= 8 && f.declared > 125:
			viol = "control frame longer than 125 bytes"
		case (f.op == 1 || f.op == 2) && open:
			viol = "new data frame inside a fragmented message"
		case f.op == 0 && !open:
			viol = "continuation without a started message"
		case f.declared>>63 != 0:
			viol = "64-bit length with the most significant bit set"
		case !f.maskRight:
			viol = "wrong masking for the role"
		}
		if viol != "" {
			ex.terminal, ex.why = "proto", viol
			if cut < f.hdrEnd {
				ex.either = "eof"
			}
			if viol == "64-bit length with the most significant bit set" {
				// the statement only says it is never accepted as a frame: a
				// limit error is as good as the protocol error
				ex.topBit = true
				if ex.either == "" {
					ex.either = "limit"
				} else {
					ex.third = "limit"
				}
			}
			return ex, true
		}
		if f.op <= 2 {
			if f.op != 0 {
				open, typ, buf, wire = true, f.op, nil, 0
			}
			wire += f.declared
			if limit > 0 && wire > uint64(limit) {
				ex.terminal, ex.why = "limit", fmt.Sprintf("message payload on the wire reaches %d bytes, limit %d", wire, limit)
				if cut < f.hdrEnd {
					ex.either = "eof"
				}
				return ex, true
			}
			if cut < f.end || f.declared != uint64(len(f.payload)) {
				// the frame is accepted but its payload never arrives completely
				// what the receiver sees as this frame's payload is whatever
				// follows the header on the stream (for an over-declared length
				// that includes the bytes of the frames behind it)
				var avail []byte
				if cut >= f.hdrEnd {
					avail = append([]byte(nil), stream[f.hdrEnd:cut]...)
					if uint64(len(avail)) > f.declared {
						avail = avail[:f.declared]
					}
					if f.masked {
						for i := range avail {
							avail[i] ^= f.key[i&3]
						}
					}
				}
				if cut >= f.hdrEnd {
					if f.op != 0 {
						ex.started = append(ex.started, [2]interface{}{int(typ), append(append([]byte(nil), buf...), avail...)})
					} else if len(ex.started) > 0 {
						ex.started[len(ex.started)-1][1] = append(append([]byte(nil), buf...), avail...)
					}
				}
				ex.terminal, ex.why = "eof", "stream ends inside a data frame"
				return ex, true
			}
			buf = append(buf, f.payload...)
			if f.op != 0 {
				ex.started = append(ex.started, [2]interface{}{int(typ), buf})
			} else if len(ex.started) > 0 {
				ex.started[len(ex.started)-1][1] = buf
			}
			if f.fin {
				ex.msgs = append(ex.msgs, [2]interface{}{int(typ), buf})
				open = false
			}
			continue
		}
		// control frame: needs all of its (at most 125) payload bytes
		if cut < f.end {
			ex.terminal, ex.why = "eof", "stream ends inside a control frame"
			return ex, true
		}
		switch f.op {
		case 9:
			ex.pongs = append(ex.pongs, f.payload)
		case 8:
			if len(f.payload) == 1 {
				return ex, false // 1-byte close body: verdict not demanded
			}
			if len(f.payload) >= 2 {
				code := int(f.payload[0])<<8 | int(f.payload[1])
				valid, known := validCloseCode(code)
				if !known {
					return ex, false
				}
				if !valid {
					ex.terminal, ex.why = "proto", fmt.Sprintf("invalid close code %d", code)
					return ex, true
				}
				if !utf8.Valid(f.payload[2:]) {
					ex.terminal, ex.why = "proto", "close reason is not UTF-8"
					return ex, true
				}
				ex.terminal, ex.code = "close", code
				return ex, true
			}
			ex.terminal, ex.code = "close", 1005
			return ex, true
		}
	}
	ex.at = len(frames)
	ex.terminal, ex.why = "eof", "stream ends"
	return ex, true
}

func classify(err error) string {
	if err == websocket.ErrReadLimit {
		return "limit"
	}
	if ce, ok := err.(*websocket.CloseError); ok {
		if ce.Code == websocket.CloseAbnormalClosure {
			return "eof"
		}
		return "close"
	}
	if err == io.EOF || err == io.ErrUnexpectedEOF {
		return "eof"
	}
	return "proto"
}

func run(p *kernel.Plan) (res *kernel.Result) {
	res = &kernel.Result{}
	role := p.C("role") // 0: endpoint under test is the client
	stream, frames, ok := buildStream(p, role == 1)
	if !ok || len(frames) == 0 {
		res.Invalid = true
		return
	}
	cut := int(p.C("cut"))
	if cut <= -2 {
		cut = int(uint64(-cut-2) % uint64(len(stream)+1))
	}
	limit := p.C("limit")
	if p.C("readapi") == 2 && (limit != 0 || (cut >= 0 && cut < len(stream))) {
		res.Invalid = true
		return
	}
	ex, ok := model(frames, limit, cut, len(stream), stream)
	if !ok {
		res.Invalid = true
		return
	}
	tape := kernel.NewTape(p)
	s := kernel.NewSched(kernel.ModeBubble, tape, 300000)
	o := wsx.Opts{}
	if role == 0 {
		o.ClientRB = int(p.C("rb"))
	} else {
		o.ServerRB = int(p.C("rb"))
	}
	if p.C("comp") != 0 {
		o.ClientComp, o.ServerComp = true, true
		for _, f := range frames {
			if f.rsv == 4 {
				res.Invalid = true // RSV1 alone: a compressed message, or a frame the statement's rules do not cover
				return
			}
		}
	}
	hst := time.Duration(p.C("hst")) * time.Millisecond
	if hst < 0 || hst > time.Hour {
		res.Invalid = true
		return
	}
	o.HandshakeTimeout = hst
	pr := wsx.NewPair(s, tape, o)
	pr.CC.EnforceReadDeadline, pr.SC.EnforceReadDeadline = true, true
	// with a handshake timeout configured the session idles longer than that
	// before the peer's first frame: a deadline armed for the handshake must be gone
	idled := &flagc{}
	if hst > 0 {
		done := false
		s.OnIdle = func() bool {
			if done {
				return false
			}
			done = true
			s.Sleep(hst + time.Second)
			idled.set()
			return true
		}
	}
	type gotMsg struct {
		typ     int
		b       []byte
		partial bool // the application abandoned the message after reading a prefix
	}
	var got []gotMsg
	var rerr error
	var later []error
	readerRecovered := ""
	var under *websocket.Conn
	underPipeIn := pr.SC.Out // bytes towards the client
	underOut := pr.CC.Out
	hsOut := func() int { return pr.HsC2S }
	if role == 1 {
		underPipeIn, underOut = pr.CC.Out, pr.SC.Out
		hsOut = func() int { return pr.HsS2C }
	}
	underPipeIn.RSeg = int(p.C("rseg"))
	underPipeIn.EOFData = p.C("eofdata") != 0
	feed := func() {
		// the stub takes over the peer's side of the transport
		underPipeIn.NoYield = true
		b := stream
		if cut >= 0 && cut < len(b) {
			b = b[:cut]
		}
		underPipeIn.Write(b)
		underPipeIn.CloseWrite()
	}
	readLoop := func(t *kernel.Task) {
		c := under
		if limit > 0 {
			c.SetReadLimit(limit)
		}
		if p.C("appwdl") != 0 {
			// left over from the application's last write; the frames the reader
			// sends on its own (pong, close, 1002) are not the application's writes
			c.SetWriteDeadline(time.Now().Add(-time.Second))
		}
		for {
			var typ int
			var b []byte
			var err error
			partial := false
			if p.C("readapi") == 0 {
				typ, b, err = c.ReadMessage()
			} else if p.C("readapi") == 2 {
				var r io.Reader
				typ, r, err = c.NextReader()
				if err == nil {
					// read a prefix only, then go on to the next message: the
					// rest of this one has to be skipped by the library
					buf := make([]byte, 1+tape.Next(64))
					var n int
					n, err = r.Read(buf)
					b = buf[:n]
					partial = true
					if err == io.EOF {
						err = nil
					}
				}
			} else {
				var r io.Reader
				typ, r, err = c.NextReader()
				if err == nil {
					b, err = io.ReadAll(r)
					if err != nil {
						// reading has failed: the same reader must not report a
						// clean end of message afterwards
						if n2, e2 := r.Read(make([]byte, 16)); e2 == nil || e2 == io.EOF {
							readerRecovered = fmt.Sprintf("after %v, the next Read on the same message reader returned (%d, %v)", err, n2, e2)
						}
					}
				}
			}
			if err != nil {
				rerr = err
				break
			}
			got = append(got, gotMsg{typ, b, partial})
			if len(got) > len(frames)+2 {
				break
			}
		}
		for i := 0; i < 3; i++ {
			_, _, e := c.NextReader()
			later = append(later, e)
		}
	}
	if role == 0 {
		s.Go("client", func(t *kernel.Task) {
			pr.Dial()
			if pr.Client == nil {
				return
			}
			under = pr.Client
			if !pr.ServerDone().Ready() {
				t.Block("wait-server", pr.ServerDone())
			}
			if hst > 0 {
				t.Block("idle-after-handshake", idled)
			}
			feed()
			readLoop(t)
		})
		s.Go("server-hs", func(t *kernel.Task) { pr.Upgrade() })
	} else {
		s.Go("client-hs", func(t *kernel.Task) { pr.Dial() })
		s.Go("server", func(t *kernel.Task) {
			pr.Upgrade()
			if pr.Server == nil {
				return
			}
			under = pr.Server
			if !pr.ClientDone().Ready() {
				t.Block("wait-client", pr.ClientDone())
			}
			if hst > 0 {
				t.Block("idle-after-handshake", idled)
			}
			feed()
			readLoop(t)
		})
	}
	err := s.Run()
	var stuck []string
	if err != nil {
		stuck = s.Unfinished()
		pr.CC.Close()
		pr.SC.Close()
		s.Abort()
	}
	s.Join()
	res.Stat("short_reads", int64(underPipeIn.St.ShortReads))
	res.Stat("one_byte_reads", int64(underPipeIn.St.OneByteReads))
	res.Stat("frames_sent_by_stub", int64(len(frames)))
	if cut >= 0 && cut < len(stream) {
		res.Stat("fault_cut", 1)
	}
	res.Stat("expected_terminal_"+ex.terminal, 1)
	if limit > 0 {
		res.Stat("runs_with_read_limit", 1)
	}
	res.Hash = kernel.HashBytes([]byte(fmt.Sprintf("%d|%v|%d", len(got), rerr, underPipeIn.St.Reads)))
	res.Inter = uint64(underPipeIn.St.Reads)<<16 ^ uint64(len(stream))
	res.State = uint64(len(ex.msgs))<<32 ^ uint64(len(ex.pongs))<<16 ^ uint64(len(ex.terminal))<<8 ^ uint64(ex.at)
	res.Nontrivial = true
	ctx := func() string {
		return fmt.Sprintf("role=%s limit=%d cut=%d/%d; model: terminal %s at frame %d (%s)", map[int64]string{0: "client", 1: "server"}[role], limit, cut, len(stream), ex.terminal, ex.at, ex.why)
	}
	if t, ok := s.FirstPanic(); ok {
		return res.Fail("C14/panic", "task %s: %v\n%s\n%s", t.Name, t.Panic, t.Stack, ctx())
	}
	if err == kernel.ErrSteps {
		return res.Fail("harness/step-limit", "%v", err)
	}
	if err != nil {
		return res.Fail("C14/no-progress", "%v: %v; %s", err, stuck, ctx())
	}
	if pr.ClientErr != nil || pr.ServerErr != nil || under == nil {
		return res.Fail("harness/handshake", "Dial: %v; Upgrade: %v", pr.ClientErr, pr.ServerErr)
	}
	if p.C("readapi") == 2 {
		// every message whose first frame a conformant receiver accepts is handed
		// out (as a prefix); nothing else is
		ex.msgs = ex.started
	}
	// delivered messages = the model's, up to the terminal
	for i := 0; i < len(got) && i < len(ex.msgs); i++ {
		if got[i].partial {
			// an abandoned message: its type is right and what was read is a prefix
			if got[i].typ != ex.msgs[i][0].(int) || !bytes.HasPrefix(ex.msgs[i][1].([]byte), got[i].b) {
				return res.Fail("C14/message-differs", "message %d: the %d bytes read before abandoning it are not a prefix of the message a conformant receiver delivers; %s", i, len(got[i].b), ctx())
			}
			res.Stat("messages_abandoned_after_partial_read", 1)
			continue
		}
		if got[i].typ != ex.msgs[i][0].(int) || !bytes.Equal(got[i].b, ex.msgs[i][1].([]byte)) {
			return res.Fail("C14/message-differs", "message %d delivered as (type %d, %d bytes), a conformant receiver delivers (type %d, %d bytes); %s", i, got[i].typ, len(got[i].b), ex.msgs[i][0], len(ex.msgs[i][1].([]byte)), ctx())
		}
	}
	if len(got) > len(ex.msgs) {
		k := "C14/delivered-after-" + ex.terminal
		return res.Fail(k, "a message (type %d, %d bytes) was delivered with nil error beyond what a conformant receiver delivers (%d messages); %s", got[len(ex.msgs)].typ, len(got[len(ex.msgs)].b), len(ex.msgs), ctx())
	}
	if p.C("readapi") == 2 && len(got) == len(ex.msgs)-1 {
		// the last started message may fail on its very first Read (when that
		// Read has to look at further frames first): nothing of it was handed out
	} else if len(got) < len(ex.msgs) {
		return res.Fail("C14/message-lost", "%d messages delivered, a conformant receiver delivers %d; reading ended with %v; %s", len(got), len(ex.msgs), rerr, ctx())
	}
	if rerr == nil {
		return res.Fail("C14/no-terminal-error", "reading never failed; %s", ctx())
	}
	cls := classify(rerr)
	if cls != ex.terminal && cls != ex.either && cls != ex.third {
		return res.Fail("C14/terminal-"+ex.terminal+"-got-"+cls, "reading ended with %q (%s); %s", rerr, cls, ctx())
	}
	if cls == "close" {
		if ce := rerr.(*websocket.CloseError); ce.Code != ex.code {
			return res.Fail("C14/close-code", "CloseError code %d, peer sent %d; %s", ce.Code, ex.code, ctx())
		}
	}
	if readerRecovered != "" {
		return res.Fail("C14/reader-recovers", "%s; %s", readerRecovered, ctx())
	}
	for i, e := range later {
		if e == nil {
			return res.Fail("C14/error-not-permanent", "read %d after the failure returned nil error, the first failure was %v; %s", i+1, rerr, ctx())
		}
	}
	// what the endpoint wrote back
	back := underOut.Wire[hsOut():]
	bf, used, perr := ref.WSParse(back, true)
	if perr != nil || used != len(back) {
		return res.Fail("C14/reply-frames-invalid", "frames written back do not parse: %v (%d of %d bytes); %s", perr, used, len(back), ctx())
	}
	_, ctrl, verr := ref.WSValidate(bf, role == 0, false)
	if verr != nil {
		return res.Fail("C14/reply-frames-invalid", "%v; %s", verr, ctx())
	}
	var pongs [][]byte
	var closes []ref.WSFrame
	for _, f := range ctrl {
		switch f.Op {
		case 10:
			if len(closes) > 0 {
				return res.Fail("C14/reply-after-close", "a pong was written after the Close frame; %s", ctx())
			}
			pongs = append(pongs, f.Payload)
		case 8:
			closes = append(closes, f)
		default:
			return res.Fail("C14/reply-unexpected", "unexpected frame %v written back; %s", f, ctx())
		}
	}
	if len(pongs) != len(ex.pongs) {
		return res.Fail("C14/pong-count", "%d pings precede the terminal, %d pongs were written; %s", len(ex.pongs), len(pongs), ctx())
	}
	for i := range pongs {
		if !bytes.Equal(pongs[i], ex.pongs[i]) {
			return res.Fail("C14/pong-payload", "pong %d carries %q, the ping carried %q; %s", i, pongs[i], ex.pongs[i], ctx())
		}
	}
	res.Stat("pongs_checked", int64(len(pongs)))
	switch cls {
	case "proto":
		if len(closes) != 1 || len(closes[0].Payload) < 2 || int(closes[0].Payload[0])<<8|int(closes[0].Payload[1]) != 1002 {
			return res.Fail("C14/no-1002-close", "after the protocol violation the endpoint wrote %d close frames %v, want exactly one with status 1002; %s", len(closes), closes, ctx())
		}
		res.Stat("close_1002_checked", 1)
	default:
		// the statement demands a Close frame only after a rule violation; in the
		// other cases at most one well-formed Close frame may have been written
		if len(closes) > 1 {
			return res.Fail("C14/close-frames", "%d close frames written (%s); %s", len(closes), cls, ctx())
		}
		if cls == "limit" {
			res.Stat("limit_breaches_checked", 1)
		}
	}
	return res
}

var Check = &kernel.Check{
	// inside a bubble: the default ping/close handlers and handleProtocolError
	// call WriteControl with a deadline of now+1s; on the real clock a worker
	// that is descheduled for a second under load would time the pong out
	ID: "C14", Gen: gen, Run: run, Bubble: true, ResetPools: true,
	Simpler: map[string][]int64{"rseg": {0}, "rb": {0}, "readapi": {0}, "cut": {-1}, "limit": {0}, "role": {0, 1}},
	Probes: func() map[string]*kernel.Plan {
		mk := func(cfg map[string]int64, ops ...kernel.Op) *kernel.Plan {
			if cfg["cut"] == 0 {
				cfg["cut"] = -1
			}
			return &kernel.Plan{Property: "C14", Cfg: cfg, Ops: ops}
		}
		top := frame(2, 1, 0, 1)
		top.N[iLenKind] = 3
		wrap := frame(0, 0, 10, 3)
		wrap.N[iLenKind] = 5
		wrap.N[iLen] = 10
		return map[string]*kernel.Plan{
			// fixed: a 64-bit length >= 2^63 was accepted (negative int64) and delivered as an empty message
			"length-2^63":            mk(map[string]int64{"role": 1}, top),
			"length-2^63-client":     mk(map[string]int64{"role": 0}, top),
			// fixed: read-limit bypass by lowering the accumulated length with a huge declared continuation
			// fixed: a frame with FIN=0 that ends the stream was delivered as a whole
			// message when the transport returned its last bytes together with io.EOF
			"unfinished-message-eof-with-data": mk(map[string]int64{"role": 0, "eofdata": 1, "rseg": 4}, frame(1, 0, 65530, 0)),
			"limit-bypass-accumulate": mk(map[string]int64{"role": 1, "limit": 10}, frame(2, 0, 10, 1), wrap, frame(0, 1, 10, 5)),
		}
	},
}

func TestCheck(t *testing.T) { kernel.Drive(t, Check) }

var _ = simnet.SegOne

type flagc struct{ v int32 }

func (f *flagc) Ready() bool { return f.v != 0 }
func (f *flagc) set()        { f.v = 1 }
