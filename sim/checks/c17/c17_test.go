// C17: comment stripping never changes what a JSON document means, under every
// segmentation of the input into reads and every EOF placement.
package c17

import (
	"bytes"
	stdjson "encoding/json"
	"fmt"
	"io"
	"reflect"
	"strings"
	"testing"

	ojson "github.com/ossrs/go-oryx-lib/json"
	"verif/sim/kernel"
	"verif/sim/simnet"
)

type dgen struct{ x uint64 }

func (g *dgen) u() uint64 {
	g.x ^= g.x << 13
	g.x ^= g.x >> 7
	g.x ^= g.x << 17
	return g.x
}
func (g *dgen) n(k int) int {
	if k <= 1 {
		return 0
	}
	return int(g.u()>>11) % k
}
func (g *dgen) p(pct int) bool { return g.n(100) < pct }

var strAlpha = []string{`"`, `\`, `/`, `*`, `'`, "\n", "a", "b", " ", "}", "{", ",", ":", "[", "]", "é", "//", "/*", "*/", "\t", "0", "\\\"", "\r"}
var cmtAlpha = []string{`"`, `\`, `/`, `*`, `'`, "a", "b", " ", "}", "{", ",", ":", "//", "/*", `\"`, "x", "\t", "* /", "'", "\r", "**"}

type doc struct {
	g        *dgen
	maxStr   int
	density  int
	und, dec bytes.Buffer
	nodes    int
	maxNodes int
	comments int
	escapes  int
	quotesIn int
}

func (d *doc) str() string {
	n := d.g.n(d.maxStr + 1)
	var sb strings.Builder
	for i := 0; i < n; i++ {
		sb.WriteString(strAlpha[d.g.n(len(strAlpha))])
	}
	return sb.String()
}

// quote writes s as a JSON string literal, choosing among legal escape forms.
func (d *doc) quote(s string) string {
	var sb strings.Builder
	sb.WriteByte('"')
	for _, r := range s {
		switch r {
		case '"':
			d.escapes++
			d.quotesIn++
			if d.g.p(90) {
				sb.WriteString(`\"`)
			} else {
				sb.WriteString(`\u0022`)
			}
		case '\\':
			d.escapes++
			sb.WriteString(`\\`)
		case '\n':
			sb.WriteString(`\n`)
		case '\r':
			sb.WriteString(`\r`)
		case '\t':
			sb.WriteString(`\t`)
		case '/':
			if d.g.p(25) {
				sb.WriteString(`\/`)
			} else {
				sb.WriteByte('/')
			}
		case '\'':
			if d.g.p(15) {
				sb.WriteString(`\u0027`)
			} else {
				sb.WriteByte('\'')
			}
		default:
			sb.WriteRune(r)
		}
	}
	sb.WriteByte('"')
	return sb.String()
}

func (d *doc) ws() string {
	switch d.g.n(6) {
	case 0:
		return " "
	case 1:
		return "\n"
	case 2:
		return "\t "
	case 3:
		return "\r\n"
	}
	return ""
}

func (d *doc) comment() string {
	n := d.g.n(12)
	var sb strings.Builder
	for i := 0; i < n; i++ {
		sb.WriteString(cmtAlpha[d.g.n(len(cmtAlpha))])
	}
	t := sb.String()
	d.comments++
	if d.g.p(50) {
		t = strings.ReplaceAll(t, "\n", " ")
		return "//" + t + "\n"
	}
	t = strings.ReplaceAll(t, "*/", "* /")
	return "/*" + t + "*/"
}

// gap is emitted between tokens: whitespace in both texts, comments only in
// the decorated one.
func (d *doc) gap() {
	w := d.ws()
	d.und.WriteString(w)
	d.dec.WriteString(w)
	for d.density > 0 && d.g.p(d.density) {
		d.dec.WriteString(d.comment())
		w := d.ws()
		d.und.WriteString(w)
		d.dec.WriteString(w)
	}
}

func (d *doc) tok(s string) {
	d.und.WriteString(s)
	d.dec.WriteString(s)
	d.gap()
}

func (d *doc) value(depth int) {
	d.nodes++
	k := d.g.n(10)
	if depth > 4 || d.nodes > d.maxNodes {
		k = d.g.n(6)
	}
	switch k {
	case 0:
		d.tok("null")
	case 1:
		d.tok([]string{"true", "false"}[d.g.n(2)])
	case 2:
		d.tok(fmt.Sprintf("%d", int64(d.g.u()>>40)-(1<<22)))
	case 3:
		d.tok([]string{"0", "-0.5", "1e3", "3.25E-2", "12345678901234567890", "-1"}[d.g.n(6)])
	case 4, 5:
		d.tok(d.quote(d.str()))
	case 6, 7:
		d.tok("[")
		n := d.g.n(4)
		for i := 0; i < n; i++ {
			if i > 0 {
				d.tok(",")
			}
			d.value(depth + 1)
		}
		d.tok("]")
	default:
		d.tok("{")
		n := d.g.n(4)
		for i := 0; i < n; i++ {
			if i > 0 {
				d.tok(",")
			}
			d.tok(d.quote(fmt.Sprintf("k%d%s", i, d.str())))
			d.tok(":")
			d.value(depth + 1)
		}
		d.tok("}")
	}
}

// build makes the (undecorated, decorated) pair from explicit numbers.
// n: [docSeed, maxNodes, maxStr, density%, padKind, padLen, trailing]
func build(n []int64) (und, dec []byte, d *doc) {
	for len(n) < 7 {
		n = append(n, 0)
	}
	g := &dgen{x: uint64(n[0])*0x9e3779b97f4a7c15 + 1}
	d = &doc{g: g, maxNodes: int(n[1]), maxStr: int(n[2]), density: int(n[3])}
	if d.density > 0 {
		d.gap() // comments may precede the first token
	}
	padKind, padLen := n[4], int(n[5])
	if padKind == 0 {
		d.value(0)
	} else {
		// a big document: array whose first element is the pad
		d.tok("[")
		switch padKind {
		case 1: // comment-free run of numbers
			for i := 0; d.und.Len() < padLen; i++ {
				if i > 0 {
					d.und.WriteString(",")
					d.dec.WriteString(",")
				}
				s := fmt.Sprintf("%d", i%977)
				d.und.WriteString(s)
				d.dec.WriteString(s)
			}
		case 2: // one long string
			s := d.quote(strings.Repeat("s", padLen))
			d.tok(s)
		case 3: // long string with escapes and markers inside
			var sb strings.Builder
			for sb.Len() < padLen {
				sb.WriteString(strAlpha[d.g.n(len(strAlpha))])
			}
			d.tok(d.quote(sb.String()))
		case 4: // long block comment
			d.tok("1")
			d.dec.WriteString("/*" + strings.Repeat("c", padLen) + "*/")
			d.comments++
		case 5: // long line comment
			d.tok("1")
			d.dec.WriteString("//" + strings.Repeat("c", padLen) + "\n")
			d.comments++
		}
		d.tok(",")
		d.value(1)
		d.tok("]")
	}
	switch n[6] {
	case 1: // line comment at end of input without newline
		d.dec.WriteString("// tail " + cmtAlpha[d.g.n(len(cmtAlpha))])
		d.comments++
	case 2:
		d.dec.WriteString("//")
		d.comments++
	case 3:
		d.und.WriteString("\n")
		d.dec.WriteString("\n")
	case 4:
		d.dec.WriteString("/* end */")
		d.comments++
	}
	return d.und.Bytes(), d.dec.Bytes(), d
}

// markerOffsets lists offsets k such that a read boundary at k falls inside a
// two-byte marker or an escape pair.
func markerOffsets(b []byte) []int {
	var out []int
	for i := 0; i+1 < len(b); i++ {
		p := string(b[i : i+2])
		if p == "//" || p == "/*" || p == "*/" || p == `\"` || p == `\\` {
			out = append(out, i+1)
		}
	}
	return out
}

func gen(g *kernel.Rng, seed uint64, tier string) *kernel.Plan {
	p := &kernel.Plan{Property: "C17", Seed: seed, Cfg: map[string]int64{}}
	n := []int64{int64(g.U64() >> 16), int64(g.Range(1, 25)), int64(g.OneOf(0, 2, 4, 8, 8, 16, 40)), int64(g.OneOf(0, 0, 20, 40, 60, 80)), 0, 0, int64(g.Pick(6, 2, 1, 1, 1))}
	big := g.Bool(0.02)
	if tier == "thorough" {
		big = g.Bool(0.04)
	}
	if big {
		n[4] = int64(g.Range(1, 5))
		n[5] = g.OneOf(4000, 5000, 65000, 65530, 65536, 66000, 70000, 80003, 140000)
		if g.Bool(0.12) {
			n[5] = g.OneOf(1048570, 1048577, 1100000, 2200000) // beyond 1 MiB
		}
	}
	if n[3] == 0 && (n[6] == 1 || n[6] == 2 || n[6] == 4) {
		n[6] = 3
	}
	p.Ops = []kernel.Op{{K: "doc", N: n}}
	_, dec, _ := build(n)
	mode := g.Pick(3, 3, 3, 2, 3)
	p.Cfg["rseg"] = int64([]int{simnet.SegWhole, simnet.SegOne, simnet.SegTape, simnet.SegSmall, simnet.SegChunky}[mode])
	if len(dec) > 20000 && p.Cfg["rseg"] == simnet.SegOne {
		p.Cfg["rseg"] = simnet.SegTape // 1-byte reads make the scanner quadratic; rationed to small docs
	}
	if len(dec) > 20000 && p.Cfg["rseg"] == simnet.SegSmall {
		p.Cfg["rseg"] = simnet.SegChunky
	}
	p.Cfg["eofdata"] = int64(g.Pick(2, 1))
	p.Cfg["split"] = -1
	if mo := markerOffsets(dec); len(mo) > 0 && g.Bool(0.5) {
		p.Cfg["split"] = int64(mo[g.Intn(len(mo))])
	}
	p.Tape = kernel.GenTape(g, g.Range(0, 64), 0.2)
	p.TapeSeed = g.U64() | 1
	return p
}

// splitReader forces the first read boundary at a given offset, then defers
// to the pipe's segmentation.
type splitReader struct {
	p     *simnet.Pipe
	first int
	done  int
}

func (s *splitReader) Read(b []byte) (int, error) {
	if s.first > 0 && s.done < s.first {
		if len(b) > s.first-s.done {
			b = b[:s.first-s.done]
		}
		save := s.p.RSeg
		s.p.RSeg = simnet.SegWhole
		n, err := s.p.Read(b)
		s.p.RSeg = save
		s.done += n
		return n, err
	}
	return s.p.Read(b)
}

// readAllWith drains r with caller buffers of tape-chosen sizes (1 byte .. 8 KiB).
func readAllWith(r io.Reader, tape *kernel.Tape, hint int) ([]byte, error) {
	var out []byte
	sizes := []int{4096, 1, 2, 7, 64, 512, 8192}
	if hint > 200000 {
		sizes = []int{4096, 8192, 65536}
	}
	for zero := 0; ; {
		buf := make([]byte, sizes[tape.Next(len(sizes))])
		n, err := r.Read(buf)
		out = append(out, buf[:n]...)
		if err == io.EOF {
			return out, nil
		}
		if err != nil {
			return out, err
		}
		if n == 0 {
			if zero++; zero > 100 {
				return out, io.ErrNoProgress
			}
		} else {
			zero = 0
		}
	}
}

func errClass(err error) string {
	s := err.Error()
	for _, c := range []string{"token too long", "unexpected EOF", "comment not match", "invalid character", "unexpected end of JSON", "cannot unmarshal"} {
		if strings.Contains(s, c) {
			return strings.ReplaceAll(c, " ", "-")
		}
	}
	return "other"
}

func clip(b []byte) string {
	if len(b) > 300 {
		return fmt.Sprintf("%q…(%d bytes)…%q", b[:150], len(b), b[len(b)-100:])
	}
	return fmt.Sprintf("%q", b)
}

func mkReader(p *kernel.Plan, tape *kernel.Tape, data []byte) (io.Reader, *simnet.Pipe) {
	pipe := simnet.NewPipe("file", nil, tape)
	pipe.NoYield = true
	pipe.RSeg = int(p.C("rseg"))
	pipe.EOFData = p.C("eofdata") != 0
	pipe.Write(data)
	pipe.CloseWrite()
	var r io.Reader = pipe
	if s := p.C("split"); s > 0 && int(s) < len(data) {
		r = &splitReader{p: pipe, first: int(s)}
	}
	return r, pipe
}

func run(p *kernel.Plan) (res *kernel.Result) {
	res = &kernel.Result{}
	defer func() {
		if r := recover(); r != nil {
			res.Fail("C17/panic", "%v", r)
		}
	}()
	if len(p.Ops) != 1 || (p.Ops[0].K != "doc" && p.Ops[0].K != "text") {
		res.Invalid = true
		return
	}
	var und, dec []byte
	var d *doc
	if p.Ops[0].K == "text" {
		// explicit texts (probes): S = [undecorated, decorated], N = [repeat count of S[2] appended inside]
		if len(p.Ops[0].S) < 2 {
			res.Invalid = true
			return
		}
		und, dec = []byte(p.Ops[0].S[0]), []byte(p.Ops[0].S[1])
		if len(p.Ops[0].S) == 3 && len(p.Ops[0].N) == 1 {
			pad := strings.Repeat(p.Ops[0].S[2], int(p.Ops[0].N[0]))
			und = []byte(strings.Replace(string(und), "@PAD@", pad, 1))
			dec = []byte(strings.Replace(string(dec), "@PAD@", pad, 1))
		}
		d = &doc{comments: bytes.Count(dec, []byte("//")) + bytes.Count(dec, []byte("/*"))}
	} else {
		und, dec, d = build(p.Ops[0].N)
	}
	var want interface{}
	if err := stdjson.NewDecoder(bytes.NewReader(und)).Decode(&want); err != nil {
		res.Invalid = true
		res.Detail = "generator produced invalid JSON: " + err.Error()
		return
	}
	tape := kernel.NewTape(p)
	log := kernel.NewLog(0)
	_ = log
	r, pipe := mkReader(p, tape, dec)
	var got interface{}
	err := ojson.Unmarshal(r, &got)
	res.Stat("docs", 1)
	res.Stat("reads", int64(pipe.St.Reads))
	res.Stat("short_reads", int64(pipe.St.ShortReads))
	res.Stat("one_byte_reads", int64(pipe.St.OneByteReads))
	if d.comments > 0 {
		res.Stat("docs_with_comments", 1)
	}
	if d.quotesIn > 0 {
		res.Stat("docs_with_escaped_quote", 1)
	}
	if len(dec) > 65536 {
		res.Stat("docs_over_64KiB", 1)
	}
	if len(dec) > 1<<20 {
		res.Stat("docs_over_1MiB", 1)
	}
	res.Stat("reads_returning_data_with_eof", int64(pipe.St.EOFWithData))
	if p.C("split") > 0 {
		res.Stat("forced_split_inside_marker", 1)
	}
	res.Nontrivial = pipe.St.ShortReads > 0 || d.comments > 0
	res.Hash = kernel.HashBytes([]byte(fmt.Sprintf("%v|%v|%d", got, err, pipe.St.Reads)))
	res.Inter = uint64(pipe.St.Reads)<<20 ^ uint64(len(dec))
	res.State = uint64(d.comments)<<32 | uint64(d.escapes)<<8 | uint64(p.C("rseg"))
	if err != nil {
		return res.Fail("C17/error:"+errClass(err), "Unmarshal failed: %v\nundecorated=%s\ndecorated=%s", err, clip(und), clip(dec))
	}
	if !reflect.DeepEqual(got, want) {
		return res.Fail("C17/value-mismatch", "got %s want %s\nundecorated=%s\ndecorated=%s", clip([]byte(fmt.Sprint(got))), clip([]byte(fmt.Sprint(want))), clip(und), clip(dec))
	}
	// A document without comments passes through byte for byte.
	tape2 := kernel.NewTape(p)
	r2, _ := mkReader(p, tape2, und)
	raw, err := readAllWith(ojson.NewJsonPlusReader(r2), tape2, len(und))
	if err != nil {
		return res.Fail("C17/passthrough-error:"+errClass(err), "reading a comment-free document failed: %v\ninput=%s", err, clip(und))
	}
	if !bytes.Equal(raw, und) {
		return res.Fail("C17/passthrough-diff", "comment-free document changed: in=%s out=%s", clip(und), clip(raw))
	}
	res.Stat("passthrough_checked", 1)
	// The same through another call pattern: a few small reads, then the rest
	// with io.Copy (which uses the reader's WriteTo, should it have one).
	{
		tape3 := kernel.NewTape(p)
		r3, _ := mkReader(p, tape3, und)
		jr := ojson.NewJsonPlusReader(r3)
		var out []byte
		eof := false
		for k := tape3.Next(4); k > 0 && !eof; k-- {
			buf := make([]byte, 1+tape3.Next(7))
			n, err := jr.Read(buf)
			out = append(out, buf[:n]...)
			if err == io.EOF {
				eof = true
			} else if err != nil {
				return res.Fail("C17/passthrough-error:"+errClass(err), "reading a comment-free document failed: %v", err)
			}
		}
		if !eof {
			var rest bytes.Buffer
			if _, err := io.Copy(&rest, jr); err != nil {
				return res.Fail("C17/passthrough-error:"+errClass(err), "io.Copy of a comment-free document failed: %v", err)
			}
			out = append(out, rest.Bytes()...)
		}
		if !bytes.Equal(out, und) {
			return res.Fail("C17/passthrough-diff-copy", "comment-free document changed when read with small reads followed by io.Copy: in=%s out=%s", clip(und), clip(out))
		}
	}
	// Two readers in use at the same time, one of them finished: the finished one
	// keeps reporting the end, the other one still yields its document.
	{
		tape4 := kernel.NewTape(p)
		ra, _ := mkReader(p, tape4, und)
		fin := ojson.NewJsonPlusReader(ra)
		if _, err := readAllWith(fin, tape4, len(und)); err != nil {
			return res.Fail("C17/passthrough-error:"+errClass(err), "reading a comment-free document failed: %v", err)
		}
		rb, _ := mkReader(p, tape4, dec)
		live := ojson.NewJsonPlusReader(rb)
		var out []byte
		for i := 0; ; i++ {
			if i%3 == 1 {
				if n, err := fin.Read(make([]byte, 1+tape4.Next(64))); n != 0 || err == nil {
					return res.Fail("C17/read-after-end", "a reader that had reported the end of its input returned (%d, %v) on a later Read", n, err)
				}
			}
			buf := make([]byte, 1+tape4.Next(9))
			if len(dec) > 4096 {
				buf = make([]byte, 4096)
			}
			n, err := live.Read(buf)
			out = append(out, buf[:n]...)
			if err == io.EOF {
				break
			}
			if err != nil {
				return res.Fail("C17/error:"+errClass(err), "second reader failed: %v", err)
			}
			if i > 10*len(dec)+1000 {
				return res.Fail("C17/no-progress", "second reader does not end")
			}
		}
		var got2 interface{}
		if err := stdjson.Unmarshal(out, &got2); err != nil || !reflect.DeepEqual(got2, want) {
			return res.Fail("C17/value-mismatch-two-readers", "with a finished reader polled in between, the document decoded as %s (%v), want %s", clip([]byte(fmt.Sprint(got2))), err, clip([]byte(fmt.Sprint(want))))
		}
	}
	return res
}

var Check = &kernel.Check{
	ID:  "C17",
	Gen: gen,
	Run: run,
	ResetPools: true,
	Simpler: map[string][]int64{
		"rseg":  {simnet.SegWhole, simnet.SegOne},
		"split": {-1},
	},
	Probes: func() map[string]*kernel.Plan {
		mk := func(und, dec string, rseg int64, extra ...any) *kernel.Plan {
			op := kernel.Op{K: "text", S: []string{und, dec}}
			if len(extra) == 2 {
				op.S = append(op.S, extra[0].(string))
				op.N = []int64{int64(extra[1].(int))}
			}
			return &kernel.Plan{Property: "C17", Cfg: map[string]int64{"rseg": rseg, "split": -1}, Ops: []kernel.Op{op}}
		}
		return map[string]*kernel.Plan{
			// fixed: escaped quote ended the string (json.go end search)
			"escaped-quote":       mk(`{"a": "x\"//y"}`, `{"a": "x\"//y"}`, simnet.SegWhole),
			"escaped-quote-1byte": mk(`{"a": "x\"//y", "b": "\\"}`, `{"a": "x\"//y", /* c */ "b": "\\"} // t`, simnet.SegOne),
			// fixed: comment-free text / one string beyond the scanner's 64KiB token limit
			"numbers-80003":  mk(`[@PAD@0]`, `[@PAD@0]`, simnet.SegWhole, "12,", 26667),
			"string-70000":   mk(`["@PAD@"]`, `["@PAD@"]`, simnet.SegTape, "s", 70000),
			"comment-70000":  mk(`[1]`, `[1/*@PAD@*/]`, simnet.SegWhole, "c", 70000),
			"tail-no-newline": mk(`{"k":[1,2]}`, `{"k":[1,/*x*/2]}//`, simnet.SegOne),
		}
	},
}

func TestCheck(t *testing.T) { kernel.Drive(t, Check) }
