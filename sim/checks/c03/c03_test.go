// C03: every constructible packet marshals to Size() bytes, unmarshals back to
// equal fields and - sent by one endpoint and decoded by the peer - arrives as
// the packet type the protocol defines for it; a _result is decoded as the
// response type of the outstanding request with that transaction id, exactly
// once; typed waits return the first arriving packet/message of the type.
package c03

import (
	"github.com/ossrs/go-oryx-lib/amf0"
	"bytes"
	"fmt"
	"io"
	"reflect"
	"sort"
	"strings"
	"testing"

	oe "github.com/ossrs/go-oryx-lib/errors"
	"github.com/ossrs/go-oryx-lib/rtmp"
	"verif/sim/kernel"
	"verif/sim/rtmpx"
	"verif/sim/simnet"
)

// ---------- generation ----------

var tidPool = []int64{4, 8, 12, 16, 10, 4000, 1 << 40, 0, -4, 4, 8} // quarters: 1, 2, 3, 4, 2.5, 1000, 2^38, 0, -1

func genPacketOp(g *kernel.Rng, e int, respBias bool) kernel.Op {
	t := tidPool[g.Intn(len(tidPool))]
	switch g.Pick(3, 4, 4, 4, 2, 2, 4, 1, 2, 2, 2, 5) {
	case 0:
		return kernel.Op{K: "connect", T: e, N: []int64{int64(g.U32()), int64(g.Range(1, 30)), int64(g.Intn(2)), int64(g.U32())}}
	case 1:
		if g.Bool(0.4) {
			t = 4
		}
		return kernel.Op{K: "connectRes", T: e, N: []int64{t, int64(g.U32()), int64(g.Range(1, 30)), int64(g.Intn(2)), int64(g.U32()), int64(g.Pick(5, 1))}}
	case 2:
		return kernel.Op{K: "createStream", T: e, N: []int64{t, int64(g.Pick(5, 1)), int64(g.U32())}}
	case 3:
		return kernel.Op{K: "createStreamRes", T: e, N: []int64{t, int64(g.Range(0, 20)), int64(g.Pick(6, 1)), int64(g.U32()), int64(g.Pick(4, 1))}}
	case 4:
		return kernel.Op{K: "publish", T: e, N: []int64{t, int64(g.U32()), int64(g.OneOf(0, 1, 8, 40, 300)), int64(g.OneOf(0, 4, 9))}}
	case 5:
		return kernel.Op{K: "play", T: e, N: []int64{t, int64(g.U32()), int64(g.OneOf(0, 1, 8, 40))}}
	case 6:
		return kernel.Op{K: "call", T: e, N: []int64{g.OneOf(0, 4, t), int64(g.U32()), int64(g.Intn(3)), int64(g.Range(1, 40)), int64(g.Intn(2)), int64(g.U32())}}
	case 7:
		return kernel.Op{K: "closeStream", T: e, N: []int64{t}}
	case 8:
		return kernel.Op{K: "scs", T: e, N: []int64{g.OneOf(1, 2, 128, 4096, 65536, 1<<31-1, 1<<31, 1<<32-1, int64(g.U32()>>1)|1, int64(g.U32())|1)}}
	case 9:
		return kernel.Op{K: "was", T: e, N: []int64{int64(g.U32())}}
	case 10:
		return kernel.Op{K: "spb", T: e, N: []int64{int64(g.U32()), int64(g.OneOf(0, 1, 2, 3, 255))}}
	default:
		et := g.OneOf(0, 1, 2, 3, 4, 6, 7, 0x19, 0x1a, 0x1b, 5, 0xffff, int64(g.Intn(65536)))
		return kernel.Op{K: "uc", T: e, N: []int64{et, int64(int32(g.U32())), int64(int32(g.U32()))}}
	}
}

var waitKinds = map[string]string{
	"connect": "*rtmp.ConnectAppPacket", "publish": "*rtmp.PublishPacket", "call": "*rtmp.CallPacket",
	"scs": "*rtmp.SetChunkSize", "was": "*rtmp.WindowAcknowledgementSize", "spb": "*rtmp.SetPeerBandwidth", "uc": "*rtmp.UserControl",
}

func gen(g *kernel.Rng, seed uint64, tier string) *kernel.Plan {
	p := &kernel.Plan{Property: "C03", Seed: seed, Cfg: map[string]int64{}}
	for _, k := range []string{"rsegA", "rsegB"} {
		p.Cfg[k] = int64(g.Pick(3, 1, 3, 1, 3))
	}
	for _, k := range []string{"wsegA", "wsegB"} {
		p.Cfg[k] = int64([]int{simnet.SegWhole, simnet.SegChunky, simnet.SegWhole, simnet.SegTape}[g.Intn(4)])
	}
	p.Cfg["post"] = int64(g.Pick(1, 2))
	if g.Bool(0.02) {
		p.Cfg["ucsweep"] = 1
	}
	switch g.Pick(6, 3, 3) {
	case 2:
		// the canonical publish/play flow, each endpoint one sequential script
		p.Variant = "flow"
		// after objectEncoding=3 a server may answer with AMF3 command messages
		// (type 17: a zero byte, then the AMF0 body)
		p.Cfg["amf3res"] = int64(g.Pick(3, 1))
		noise := func(e int) {
			for k := g.Range(0, 3); k > 0; k-- {
				op := genPacketOp(g, e, false)
				// the client's noise is control traffic only (the server waits for
				// its commands by type); the server may also send commands and
				// requests of its own, which the client's typed waits must skip
				for op.K != "was" && op.K != "spb" && op.K != "uc" && op.K != "scs" && !(e == 1 && (op.K == "connect" || op.K == "call" || op.K == "publish" || op.K == "closeStream")) {
					op = genPacketOp(g, e, false)
				}
				p.Ops = append(p.Ops, op)
			}
		}
		p.Ops = append(p.Ops, kernel.Op{K: "connect", T: 0, N: []int64{int64(g.U32()), int64(g.Range(1, 30)), int64(g.Intn(2)), int64(g.U32())}})
		p.Ops = append(p.Ops, kernel.Op{K: "expect", T: 1, S: []string{"*rtmp.ConnectAppPacket"}})
		noise(1)
		p.Ops = append(p.Ops, kernel.Op{K: "connectRes", T: 1, N: []int64{4, int64(g.U32()), int64(g.Range(1, 30)), int64(g.Intn(2)), int64(g.U32())}})
		p.Ops = append(p.Ops, kernel.Op{K: "expect", T: 0, S: []string{"*rtmp.ConnectAppResPacket"}})
		tq := int64(8)
		for k := g.Range(1, 3); k > 0; k-- {
			noise(0)
			p.Ops = append(p.Ops, kernel.Op{K: "createStream", T: 0, N: []int64{tq, 0, 0}})
			p.Ops = append(p.Ops, kernel.Op{K: "expectcmd", T: 1})
			noise(1)
			p.Ops = append(p.Ops, kernel.Op{K: "createStreamRes", T: 1, N: []int64{tq, int64(g.Range(0, 20)), 0, 0}})
			p.Ops = append(p.Ops, kernel.Op{K: "expect", T: 0, S: []string{"*rtmp.CreateStreamResPacket"}})
			tq += 4 * int64(g.Range(1, 3))
		}
		if g.Bool(0.5) {
			p.Ops = append(p.Ops, kernel.Op{K: "publish", T: 0, N: []int64{tq, int64(g.U32()), int64(g.OneOf(1, 8, 40)), int64(g.OneOf(0, 4))}})
			p.Ops = append(p.Ops, kernel.Op{K: "expect", T: 1, S: []string{"*rtmp.PublishPacket"}})
		} else {
			p.Ops = append(p.Ops, kernel.Op{K: "play", T: 0, N: []int64{tq, int64(g.U32()), int64(g.OneOf(1, 8, 40))}})
			p.Ops = append(p.Ops, kernel.Op{K: "expectcmd", T: 1})
		}
	case 0:
		p.Variant = "stream"
		if g.Bool(0.04) {
			// a long pipeline: hundreds of requests outstanding at once, answered
			// afterwards (in order, reversed, or every other one first)
			n := g.Range(130, 330)
			for i := 0; i < n; i++ {
				p.Ops = append(p.Ops, kernel.Op{K: "createStream", T: 0, N: []int64{int64(8 + 4*i), 0, 0}})
			}
			p.Ops = append(p.Ops, kernel.Op{K: "sync", T: 1, N: []int64{int64(n)}})
			order := g.Intn(3)
			for k := 0; k < n; k++ {
				i := k
				switch order {
				case 1:
					i = n - 1 - k
				case 2:
					if k < (n+1)/2 {
						i = 2 * k
					} else {
						i = 2*(k-(n+1)/2) + 1
					}
				}
				p.Ops = append(p.Ops, kernel.Op{K: "createStreamRes", T: 1, N: []int64{int64(8 + 4*i), int64(g.Range(0, 20)), 0, 0, 0}})
			}
			p.Tape = kernel.GenTape(g, g.Range(0, 60), 0.25)
			p.TapeSeed = g.U64() | 1
			return p
		}
		n := g.Range(1, 25)
		recvd := [2]int{}
		for i := 0; i < n; i++ {
			e := g.Intn(2)
			if g.Bool(0.25) {
				// causal response: wait until some of the peer's messages arrived
				p.Ops = append(p.Ops, kernel.Op{K: "sync", T: e, N: []int64{int64(g.Range(1, recvd[1-e]+1))}})
			}
			p.Ops = append(p.Ops, genPacketOp(g, e, true))
			recvd[e]++
		}
	default:
		p.Variant = "wait"
		// endpoint 0 sends; endpoint 1 waits for typed packets / messages
		n := g.Range(1, 5)
		for i := 0; i < n; i++ {
			skip := g.Range(0, 4)
			for j := 0; j < skip; j++ {
				op := genPacketOp(g, 0, false)
				for op.K == "connectRes" || op.K == "createStreamRes" {
					op = genPacketOp(g, 0, false)
				}
				p.Ops = append(p.Ops, op)
			}
			tgt := genPacketOp(g, 0, false)
			for waitKinds[tgt.K] == "" {
				tgt = genPacketOp(g, 0, false)
			}
			p.Ops = append(p.Ops, tgt)
			if g.Bool(0.3) {
				mt := map[string]int64{"connect": 20, "publish": 20, "call": 20, "scs": 1, "was": 5, "spb": 6, "uc": 4}[tgt.K]
				// messages of other types right in front of the awaited one: AMF3
				// command/data, audio, video (a typed message wait must skip them)
				for k := g.Range(0, 2); k > 0; k-- {
					p.Ops = append(p.Ops[:len(p.Ops)-1], kernel.Op{K: "raw", T: 0, N: []int64{g.OneOf(17, 15, 8, 9, 18), int64(g.Range(1, 40)), int64(g.U32())}}, p.Ops[len(p.Ops)-1])
				}
				p.Ops = append(p.Ops, kernel.Op{K: "waitmsg", T: 1, N: []int64{mt, g.OneOf(mt, 99)}})
			} else {
				p.Ops = append(p.Ops, kernel.Op{K: "wait", T: 1, S: []string{waitKinds[tgt.K]}})
			}
		}
	}
	p.Tape = kernel.GenTape(g, g.Range(0, 160), 0.25)
	p.TapeSeed = g.U64() | 1
	return p
}

// ---------- run ----------

type sendRec struct {
	op           int
	kind         string
	bytes        []byte
	step0, step1 int
	err          error
	reqName      string
	tid          float64
	respTid      float64
	isResp       bool
	errName      bool   // a response sent with the command name _error
	fields       string // %+v of a control packet's exported fields
}

type recvRec struct {
	mode    string // plain | wait | waitmsg
	want    string
	step0   int
	step    int
	msgType byte
	payload []byte
	pktType string
	err     error
	remEq   bool
	sizeOK  bool
	fields  string
}

type side struct {
	sends   []sendRec
	recvs   []recvRec
	recvCnt int32
	done    int32
}

type syncCond struct {
	sd  *side
	n   int32
	brk *int32
}

//go:norace
func (c *syncCond) Ready() bool { return c.sd.recvCnt >= c.n || c.sd.done != 0 || *c.brk != 0 }

func cmdName(b []byte) string {
	if len(b) >= 3 && b[0] == 2 {
		n := int(b[1])<<8 | int(b[2])
		if len(b) >= 3+n {
			return string(b[3 : 3+n])
		}
	}
	return ""
}

func typeName(p rtmp.Packet) string { return reflect.TypeOf(p).String() }

// fieldsOf renders the exported fields of the fixed-layout control packets, so
// that field values (not only bytes) are compared across the wire.
func fieldsOf(p rtmp.Packet) string {
	switch q := p.(type) {
	case *rtmp.UserControl:
		return fmt.Sprintf("%+v", *q)
	case *rtmp.SetChunkSize:
		return fmt.Sprintf("%+v", *q)
	case *rtmp.WindowAcknowledgementSize:
		return fmt.Sprintf("%+v", *q)
	case *rtmp.SetPeerBandwidth:
		return fmt.Sprintf("%+v", *q)
	}
	return ""
}

func run(p *kernel.Plan) (res *kernel.Result) {
	res = &kernel.Result{}
	sides := [2]*side{{}, {}}
	var brk int32
	var sendFail string
	lateUpdates := 0
	amf3Responses := 0
	s := rtmpx.NewSession(p, kernel.ModePlain, 300000)
	idx := func(e *rtmpx.End) int {
		if e == s.A {
			return 0
		}
		return 1
	}
	s.Hook = func(s *rtmpx.Session, e *rtmpx.End, t *kernel.Task, i int, op kernel.Op) bool {
		sd := sides[idx(e)]
		switch op.K {
		case "sync":
			if len(op.N) > 0 {
				c := &syncCond{sd: sd, n: int32(op.N[0]), brk: &brk}
				if !c.Ready() {
					t.Block("sync:"+e.Name, c)
				}
			}
			return true
		case "wait", "waitmsg":
			return true
		case "raw":
			if len(op.N) < 3 || op.N[1] < 1 || op.N[1] > 100000 {
				return true
			}
			m := rtmp.NewStreamMessage(1)
			m.MessageType = rtmp.MessageType(op.N[0])
			m.Payload = kernel.Fill(int(op.N[1]), uint64(op.N[2]))
			rec := sendRec{op: i, kind: fmt.Sprintf("raw:%d", op.N[0]), bytes: m.Payload, step0: s.S.Now()}
			rec.err = e.Proto.WriteMessage(m)
			rec.step1 = s.S.Now()
			sd.sends = append(sd.sends, rec)
			return true
		case "expectcmd":
			// wait for the next AMF0 command message, whatever packet type it decodes to
			rr := recvRec{mode: "waitcmd", want: "[20]", step0: s.S.Now()}
			m, err := e.Proto.ExpectMessage(rtmp.MessageTypeAMF0Command)
			var pkt rtmp.Packet
			if err == nil {
				pkt, err = e.Proto.DecodeMessage(m)
			}
			rr.err = err
			rr.step = s.S.Now()
			if m != nil {
				rr.msgType, rr.payload = byte(m.MessageType), m.Payload
			}
			if pkt != nil && err == nil && !reflect.ValueOf(pkt).IsNil() {
				rr.pktType = typeName(pkt)
				rr.fields = fieldsOf(pkt)
				if b, err := pkt.MarshalBinary(); err == nil {
					rr.remEq = m != nil && bytes.Equal(b, m.Payload)
					rr.sizeOK = pkt.Size() == len(b)
				}
			}
			sd.recvs = append(sd.recvs, rr)
			sd.recvCnt++
			t.Evf("expectcmd", "%s got=%s err=%v", e.Name, rr.pktType, err)
			if err != nil {
				e.Crashed = true
				e.Conn.Close()
			}
			return true
		case "expect":
			if len(op.S) < 1 {
				return true
			}
			rr := recvRec{mode: "wait", want: op.S[0], step0: s.S.Now()}
			m, pkt, err, known := expectTyped(e.Proto, op.S[0])
			if !known {
				return true
			}
			rr.err = err
			rr.step = s.S.Now()
			if m != nil {
				rr.msgType, rr.payload = byte(m.MessageType), m.Payload
				if m.MessageType == rtmp.MessageTypeAMF3Command && len(m.Payload) > 0 && m.Payload[0] == 0 {
					rr.payload = m.Payload[1:] // the AMF0 body of an AMF3 command message
				}
			}
			if pkt != nil && !reflect.ValueOf(pkt).IsNil() {
				rr.pktType = typeName(pkt)
				rr.fields = fieldsOf(pkt)
				if b, err := pkt.MarshalBinary(); err == nil {
					rr.remEq = m != nil && bytes.Equal(b, rr.payload)
					rr.sizeOK = pkt.Size() == len(b)
				}
			}
			sd.recvs = append(sd.recvs, rr)
			sd.recvCnt++
			t.Evf("expect", "%s want=%s got=%s err=%v", e.Name, rr.want, rr.pktType, err)
			if err != nil {
				e.Crashed = true
				e.Conn.Close()
			}
			return true
		}
		pkt, kind := rtmpx.BuildPacket(op)
		if pkt == nil {
			return false
		}
		if cs := rtmpx.LastContainers(); len(cs) > 1 && i%2 == 0 {
			// the application asks for the size, then updates a nested value in
			// place before it sends the packet
			pkt.Size()
			cs[len(cs)-1]("late", amf0.NewString("set after Size()"))
			lateUpdates++
		}
		for _, tr := range rtmpx.Trees(pkt) {
			if m := rtmpx.TreeOK(tr); m != "" {
				if sendFail == "" {
					sendFail = fmt.Sprintf("C03/amf0-tree|op %d %s: an AMF0 value of the packet does not survive encode/decode on its own: %s", i, op.K, m)
				}
				return true
			}
		}
		b, err := pkt.MarshalBinary()
		if err != nil {
			sendFail = fmt.Sprintf("C03/marshal-error|op %d %s: %v", i, op.K, err)
			return true
		}
		if len(b) != pkt.Size() {
			sendFail = fmt.Sprintf("C03/size-mismatch:%s|op %d %s: MarshalBinary gives %d bytes, Size() says %d", kind, i, op.K, len(b), pkt.Size())
			return true
		}
		errNamed := cmdName(b) == "_error"
		// a fresh packet of the same type unmarshals to equal fields
		f := rtmpx.Fresh(kind)
		if errNamed && kind == "*rtmp.ConnectAppResPacket" {
			f = nil // the connect response type insists on the name _result
		}
		if f == nil {
		} else if err := f.UnmarshalBinary(b); err != nil {
			sendFail = fmt.Sprintf("C03/roundtrip-unmarshal:%s|op %d %s: fresh %s cannot unmarshal its own encoding (%d bytes): %v", kind, i, op.K, kind, len(b), err)
			return true
		}
		if f != nil {
			b2, err := f.MarshalBinary()
			if err != nil || !bytes.Equal(b, b2) || f.Size() != len(b) {
				sendFail = fmt.Sprintf("C03/roundtrip-differs:%s|op %d %s: unmarshalled copy re-marshals to %d bytes (Size %d), original %d bytes, err %v", kind, i, op.K, len(b2), f.Size(), len(b), err)
				return true
			}
			if fp := fieldsOf(pkt); fp != "" && fp != fieldsOf(f) {
				sendFail = fmt.Sprintf("C03/roundtrip-fields:%s|op %d %s: %s unmarshals from its own encoding as %s", kind, i, op.K, fp, fieldsOf(f))
				return true
			}
		}
		rec := sendRec{op: i, kind: kind, bytes: b, step0: s.S.Now(), errName: errNamed, fields: fieldsOf(pkt)}
		switch q := pkt.(type) {
		case *rtmp.ConnectAppPacket:
			rec.reqName, rec.tid = "connect", float64(q.TransactionID)
		case *rtmp.CreateStreamPacket:
			rec.reqName, rec.tid = "createStream", float64(q.TransactionID)
		case *rtmp.ConnectAppResPacket:
			rec.isResp, rec.respTid = true, float64(q.TransactionID)
		case *rtmp.CreateStreamResPacket:
			rec.isResp, rec.respTid = true, float64(q.TransactionID)
		}
		if p.Variant == "flow" && p.C("amf3res") != 0 && (op.K == "connectRes" || op.K == "createStreamRes") {
			m := rtmp.NewStreamMessage(int(uint32(i) * 7))
			m.MessageType = rtmp.MessageTypeAMF3Command
			m.Payload = append([]byte{0}, b...)
			rec.err = e.Proto.WriteMessage(m)
			amf3Responses++
		} else {
			rec.err = e.Proto.WritePacket(pkt, int(uint32(i)*7))
		}
		rec.step1 = s.S.Now()
		sd.sends = append(sd.sends, rec)
		t.Evf("sent", "%s %s %dB err=%v", e.Name, kind, len(b), rec.err)
		if rec.err != nil {
			e.Crashed = true
			e.Conn.Close()
		}
		return true
	}
	s.ReaderFn = func(s *rtmpx.Session, e *rtmpx.End, t *kernel.Task) {
		sd := sides[idx(e)]
		defer func() { sd.done = 1 }()
		if p.Variant == "flow" {
			return // each endpoint is one sequential script run by its writer task
		}
		record := func(rr recvRec, m *rtmp.Message, pkt rtmp.Packet) {
			rr.step = s.S.Now()
			if m != nil {
				rr.msgType, rr.payload = byte(m.MessageType), m.Payload
			}
			if pkt != nil && !reflect.ValueOf(pkt).IsNil() {
				rr.pktType = typeName(pkt)
				rr.fields = fieldsOf(pkt)
				if b, err := pkt.MarshalBinary(); err == nil {
					rr.remEq = m != nil && bytes.Equal(b, m.Payload)
					rr.sizeOK = pkt.Size() == len(b)
				}
			}
			sd.recvs = append(sd.recvs, rr)
			sd.recvCnt++
			t.Evf("recv", "%s %s type=%s err=%v", e.Name, rr.mode, rr.pktType, rr.err)
		}
		// scripted typed waits first
		for _, op := range p.Ops {
			if op.T != idx(e) {
				continue
			}
			switch op.K {
			case "wait":
				if len(op.S) < 1 {
					continue
				}
				rr := recvRec{mode: "wait", want: op.S[0], step0: s.S.Now()}
				m, pkt, err, known := expectTyped(e.Proto, op.S[0])
				if !known {
					continue
				}
				rr.err = err
				record(rr, m, pkt)
				if err != nil {
					return
				}
			case "waitmsg":
				rr := recvRec{mode: "waitmsg", want: fmt.Sprint(op.N), step0: s.S.Now()}
				var ts []rtmp.MessageType
				for _, n := range op.N {
					ts = append(ts, rtmp.MessageType(n))
				}
				m, err := e.Proto.ExpectMessage(ts...)
				rr.err = err
				record(rr, m, nil)
				if err != nil {
					return
				}
			}
		}
		for {
			rr := recvRec{mode: "plain", step0: s.S.Now()}
			m, err := e.Proto.ReadMessage()
			if err != nil {
				rr.err = err
				rr.mode = "end"
				record(rr, nil, nil)
				return
			}
			pkt, err := e.Proto.DecodeMessage(m)
			rr.err = err
			record(rr, m, pkt)
		}
	}
	s.S.OnIdle = func() bool {
		if brk == 0 {
			brk = 1
			return true
		}
		return false
	}
	s.Run()
	s.ApplyStats(res)
	if p.C("ucsweep") != 0 {
		if m := ucSweep(); m != "" {
			return res.Fail("C03/user-control-sweep", "%s", m)
		}
		res.Stat("user_control_event_types_swept", 65536)
	}
	if t, ok := s.S.FirstPanic(); ok {
		return res.Fail("C03/panic", "task %s: %v\n%s", t.Name, t.Panic, t.Stack)
	}
	if s.Err == kernel.ErrSteps {
		return res.Fail("harness/step-limit", "%v", s.Err)
	}
	if s.Err != nil {
		return res.Fail("C03/no-progress", "%v: %v", s.Err, s.Stuck)
	}
	if sendFail != "" {
		kv := strings.SplitN(sendFail, "|", 2)
		return res.Fail(kv[0], "%s", kv[1])
	}
	for _, e := range []*rtmpx.End{s.A, s.B} {
		if e.HsErr != nil {
			return res.Fail("C03/handshake", "%v", e.HsErr)
		}
	}
	if brk != 0 {
		res.Stat("sync_deadlocks_broken", 1)
	}
	res.Stat("packets_updated_in_place_after_Size", int64(lateUpdates))
	res.Stat("flow_responses_sent_as_amf3_command", int64(amf3Responses))
	for d := 0; d < 2; d++ {
		if !evalDir(res, p, sides[d], sides[1-d], []string{"A>B", "B>A"}[d]) {
			return res
		}
	}
	res.Nontrivial = len(sides[0].sends)+len(sides[1].sends) > 0
	var st uint64
	for _, sd := range sides {
		for _, r := range sd.recvs {
			st = st*131 + uint64(len(r.pktType)) + uint64(r.msgType)
			if r.err != nil {
				st += 7
			}
		}
	}
	res.State = st
	return res
}

// expectTyped calls ExpectPacket with a pointer of the wanted packet type.
func expectTyped(pr *rtmp.Protocol, want string) (m *rtmp.Message, pkt rtmp.Packet, err error, known bool) {
	known = true
	switch want {
	case "*rtmp.ConnectAppPacket":
		var q *rtmp.ConnectAppPacket
		m, err = pr.ExpectPacket(&q)
		pkt = q
	case "*rtmp.ConnectAppResPacket":
		var q *rtmp.ConnectAppResPacket
		m, err = pr.ExpectPacket(&q)
		pkt = q
	case "*rtmp.CreateStreamResPacket":
		var q *rtmp.CreateStreamResPacket
		m, err = pr.ExpectPacket(&q)
		pkt = q
	case "*rtmp.PublishPacket":
		var q *rtmp.PublishPacket
		m, err = pr.ExpectPacket(&q)
		pkt = q
	case "*rtmp.CallPacket":
		var q *rtmp.CallPacket
		m, err = pr.ExpectPacket(&q)
		pkt = q
	case "*rtmp.SetChunkSize":
		var q *rtmp.SetChunkSize
		m, err = pr.ExpectPacket(&q)
		pkt = q
	case "*rtmp.WindowAcknowledgementSize":
		var q *rtmp.WindowAcknowledgementSize
		m, err = pr.ExpectPacket(&q)
		pkt = q
	case "*rtmp.SetPeerBandwidth":
		var q *rtmp.SetPeerBandwidth
		m, err = pr.ExpectPacket(&q)
		pkt = q
	case "*rtmp.UserControl":
		var q *rtmp.UserControl
		m, err = pr.ExpectPacket(&q)
		pkt = q
	default:
		known = false
	}
	return
}

type reg struct {
	tid          float64
	name         string
	step0, step1 int
}

// evalDir checks what `to` received against what `from` sent, with the
// transaction model of `to` (requests sent by `to`, responses sent by `from`).
func evalDir(res *kernel.Result, p *kernel.Plan, from, to *side, name string) bool {
	var regs []reg
	for _, sr := range to.sends {
		if sr.err == nil && sr.reqName != "" && sr.tid > 0 {
			regs = append(regs, reg{sr.tid, sr.reqName, sr.step0, sr.step1})
		}
	}
	sort.Slice(regs, func(i, j int) bool { return regs[i].step1 < regs[j].step1 })
	// requests sent with a transaction id <= 0 ("no response expected" in RTMP):
	// whether an answer to one of them is matched is left open
	nonposReq := map[float64]bool{}
	for _, sr := range to.sends {
		if sr.err == nil && sr.reqName != "" && sr.tid <= 0 {
			nonposReq[sr.tid] = true
		}
	}
	var sent []sendRec
	for _, sr := range from.sends {
		if sr.err != nil {
			res.Fail("C03/write-error", "%s: WritePacket %s failed: %v", name, sr.kind, sr.err)
			return false
		}
		sent = append(sent, sr)
	}
	model := map[float64]string{}
	tainted := map[float64]bool{}
	ri := 0
	ambStep := map[float64]int{}
	advance := func(st int) {
		// one task runs per scheduler step, so a registration that returned in
		// step st and a decode that starts in step st belong to the same task,
		// in program order
		for ri < len(regs) && regs[ri].step1 <= st {
			r := regs[ri]
			if as, ok := ambStep[r.tid]; ok && r.step0 <= as {
				// a response was decoded while this registration was in
				// progress: whether it consumed this entry is unknowable
				tainted[r.tid] = true
				delete(model, r.tid)
			} else {
				model[r.tid] = r.name
				delete(tainted, r.tid)
			}
			ri++
		}
	}
	// expectation for sent[i] decoded within steps [st0, st]
	type exp struct {
		types []string // acceptable packet types ("" = error acceptable)
		must  bool     // success required (remarshal equal)
	}
	expect := func(sr sendRec, st0, st int, consume bool) exp {
		if strings.HasPrefix(sr.kind, "raw:") {
			// a raw message with an arbitrary body: DecodeMessage may fail or produce any packet
			return exp{[]string{"", "*rtmp.CallPacket", "*rtmp.ConnectAppPacket", "*rtmp.PublishPacket", "*rtmp.ConnectAppResPacket", "*rtmp.CreateStreamResPacket"}, false}
		}
		switch sr.kind {
		case "*rtmp.ConnectAppPacket", "*rtmp.PublishPacket", "*rtmp.SetChunkSize", "*rtmp.WindowAcknowledgementSize", "*rtmp.SetPeerBandwidth", "*rtmp.UserControl":
			return exp{[]string{sr.kind}, true}
		case "*rtmp.CreateStreamPacket", "*rtmp.PlayPacket":
			// the library has no dedicated dispatch case for createStream/play and
			// hands them over as the generic call packet; the dedicated type would
			// be "the packet type the protocol defines" just as well
			return exp{[]string{"*rtmp.CallPacket", sr.kind}, true}
		case "*rtmp.CallPacket":
			return exp{[]string{"*rtmp.CallPacket"}, true}
		}
		// a _result
		advance(st0)
		t := sr.respTid
		amb := tainted[t]
		for _, r := range regs[ri:] {
			if r.tid == t && r.step0 <= st {
				amb = true // registration may or may not have happened yet
			}
		}
		if amb {
			res.Stat("responses_in_registration_window", 1)
			if consume {
				tainted[t] = true
				ambStep[t] = st
				delete(model, t)
			}
			return exp{[]string{"", "*rtmp.ConnectAppResPacket", "*rtmp.CreateStreamResPacket"}, false}
		}
		nm, ok := model[t]
		if !ok && nonposReq[t] {
			return exp{[]string{"", "*rtmp.ConnectAppResPacket", "*rtmp.CreateStreamResPacket"}, false}
		}
		if !ok {
			if t <= 0 {
				res.Stat("responses_without_request_id_not_positive", 1)
			}
			res.Stat("responses_without_request", 1)
			return exp{[]string{""}, false}
		}
		if consume {
			delete(model, t)
		}
		want := map[string]string{"connect": "*rtmp.ConnectAppResPacket", "createStream": "*rtmp.CreateStreamResPacket"}[nm]
		res.Stat("responses_matched", 1)
		if sr.errName {
			res.Stat("responses_named_error", 1)
		}
		if want == sr.kind && !(sr.errName && want == "*rtmp.ConnectAppResPacket") {
			return exp{[]string{want}, true}
		}
		res.Stat("responses_of_other_kind", 1)
		return exp{[]string{want, ""}, false}
	}
	judge := func(i int, sr sendRec, rr recvRec, ex exp) bool {
		got := rr.pktType
		if rr.err != nil {
			got = ""
		}
		ok := false
		for _, t := range ex.types {
			if t == got {
				ok = true
			}
		}
		if !ok {
			k := "wrong-type"
			if got == "" {
				k = "decode-error"
			} else if len(ex.types) == 1 && ex.types[0] == "" {
				k = "response-guessed"
			}
			res.Fail("C03/"+k+":"+sr.kind, "%s: packet %d sent as %s (%d bytes, command %q) was decoded as %q err=%v; the protocol defines %v", name, i, sr.kind, len(sr.bytes), cmdName(sr.bytes), rr.pktType, rr.err, ex.types)
			return false
		}
		if got != "" && sr.fields != "" && rr.fields != sr.fields {
			res.Fail("C03/fields-differ:"+sr.kind, "%s: packet %d sent as %s arrived as %s", name, i, sr.fields, rr.fields)
			return false
		}
		if got != "" && (!rr.remEq || !rr.sizeOK) {
			res.Fail("C03/remarshal-differs:"+sr.kind, "%s: packet %d decoded as %s does not re-marshal to the received payload (Size ok=%v)", name, i, got, rr.sizeOK)
			return false
		}
		return true
	}
	pos := 0
	for _, rr := range to.recvs {
		switch rr.mode {
		case "end":
			if pos != len(sent) {
				res.Fail("C03/lost", "%s: reader ended with %v after %d of %d packets", name, rr.err, pos, len(sent))
				return false
			}
			if c := oe.Cause(rr.err); c != io.EOF && c != io.ErrUnexpectedEOF {
				res.Fail("C03/end-error", "%s: reader ended with %v", name, rr.err)
				return false
			}
			return true
		case "plain":
			if pos >= len(sent) {
				res.Fail("C03/fabricated", "%s: received a message beyond the %d sent", name, len(sent))
				return false
			}
			sr := sent[pos]
			if !bytes.Equal(sr.bytes, rr.payload) {
				res.Fail("C03/wire-mismatch", "%s: packet %d (%s) payload differs on arrival", name, pos, sr.kind)
				return false
			}
			if !judge(pos, sr, rr, expect(sr, rr.step0, rr.step, true)) {
				return false
			}
			pos++
		case "wait", "waitmsg", "waitcmd":
			// the first definite match at or after pos
			first := -1
			for j := pos; j < len(sent); j++ {
				sr := sent[j]
				var hit bool
				if rr.mode == "wait" {
					if strings.HasPrefix(sr.kind, "raw:") {
						// a typed packet wait decodes what it skips: audio, video or
						// arbitrary bodies in front of it are outside the statement
						res.Invalid = true
						return true
					}
					ex := expect(sr, rr.step0, rr.step, false)
					hit = ex.must && ex.types[0] == rr.want
					if ex.must && len(ex.types) > 1 {
						// createStream/play may arrive as the generic call packet or
						// as their dedicated type: a wait for either type may take
						// this packet or skip it; what it returned decides
						maybe := false
						for _, tp := range ex.types {
							maybe = maybe || tp == rr.want
						}
						hit = maybe && rr.err == nil && bytes.Equal(sr.bytes, rr.payload)
					}
					if !hit && sr.isResp {
						// a response the typed wait skips is decoded, i.e. consumed
						if ex2 := expect(sr, rr.step0, rr.step, true); !ex2.must {
							res.Invalid = true // not a scenario a typed wait is specified for
							res.Stat("invalid_skipped_response_not_definite", 1)
							return true
						}
					}
				} else {
					if sr.isResp {
						break
					}
					mt := packetMsgType(sr.kind)
					hit = strings.Contains(rr.want, fmt.Sprintf("[%d ", mt)) || strings.Contains(rr.want, fmt.Sprintf(" %d]", mt)) || strings.Contains(rr.want, fmt.Sprintf("[%d]", mt))
				}
				if hit {
					first = j
					break
				}
			}
			if first < 0 {
				// nothing the wait could definitely return: not a meaningful case
				if rr.err == nil {
					res.Fail("C03/wait-fabricated", "%s: %s for %s returned a message although none of that type was sent", name, rr.mode, rr.want)
					return false
				}
				res.Invalid = true
				res.Stat("invalid_wait_without_definite_match:"+p.Variant+":"+rr.want, 1)
				return true
			}
			if rr.err != nil {
				res.Fail("C03/wait-error", "%s: %s for %s failed with %v although packet %d (%s) of that type was sent after only control/command traffic", name, rr.mode, rr.want, rr.err, first, sent[first].kind)
				return false
			}
			sr := sent[first]
			if !bytes.Equal(sr.bytes, rr.payload) {
				// which one did it return?
				which := -1
				for j := pos; j < len(sent); j++ {
					if bytes.Equal(sent[j].bytes, rr.payload) {
						which = j
						break
					}
				}
				res.Fail("C03/wait-not-first", "%s: %s for %s returned sent packet %d, but the first arriving one of that type is packet %d (%s)", name, rr.mode, rr.want, which, first, sr.kind)
				return false
			}
			if rr.mode == "waitcmd" {
				// the message was awaited by type and then decoded like a plain read
				if !judge(first, sr, rr, expect(sr, rr.step0, rr.step, true)) {
					return false
				}
				res.Stat("command_message_waits", 1)
			} else if rr.mode == "wait" {
				if sr.isResp {
					expect(sr, rr.step0, rr.step, true) // the awaited response is consumed
				}
				if !judge(first, sr, rr, exp{[]string{rr.want}, true}) {
					return false
				}
				res.Stat("typed_packet_waits", 1)
				res.Stat("packets_skipped_by_waits", int64(first-pos))
			} else {
				if rr.msgType != packetMsgType(sr.kind) {
					res.Fail("C03/waitmsg-type", "%s: ExpectMessage returned type %d", name, rr.msgType)
					return false
				}
				res.Stat("typed_message_waits", 1)
			}
			pos = first + 1
		}
	}
	// reader stopped early (after a wait error); nothing more to compare
	return true
}

func packetMsgType(kind string) byte {
	if strings.HasPrefix(kind, "raw:") {
		var t int
		fmt.Sscanf(kind, "raw:%d", &t)
		return byte(t)
	}
	switch kind {
	case "*rtmp.SetChunkSize":
		return 1
	case "*rtmp.UserControl":
		return 4
	case "*rtmp.WindowAcknowledgementSize":
		return 5
	case "*rtmp.SetPeerBandwidth":
		return 6
	}
	return 20
}

// ucSweep: all 65536 user-control event types marshal to Size() bytes and
// unmarshal back to the same fields.
func ucSweep() string {
	for et := 0; et < 65536; et++ {
		p := rtmp.NewUserControl()
		p.EventType = rtmp.EventType(et)
		p.EventData = int32(0x01020304 + et)
		if p.EventType == rtmp.EventTypeFmsEvent0 {
			p.EventData = 0xfe
		}
		if p.EventType == rtmp.EventTypeSetBufferLength {
			p.ExtraData = int32(-5 - et)
		}
		b, err := p.MarshalBinary()
		if err != nil || len(b) != p.Size() {
			return fmt.Sprintf("event type %#x: marshal %d bytes, Size %d, err %v", et, len(b), p.Size(), err)
		}
		q := rtmp.NewUserControl()
		if err := q.UnmarshalBinary(b); err != nil {
			return fmt.Sprintf("event type %#x: unmarshal: %v", et, err)
		}
		if *q != *p {
			return fmt.Sprintf("event type %#x: %+v became %+v", et, *p, *q)
		}
	}
	return ""
}

var Check = &kernel.Check{
	ID: "C03", Gen: gen, Run: run,
	Simpler: map[string][]int64{"rsegA": {0}, "rsegB": {0}, "wsegA": {0}, "wsegB": {0}, "post": {0}, "ucsweep": {0}},
}

func TestCheck(t *testing.T) { kernel.Drive(t, Check) }
