// C13: any sequence of text/binary messages written with any mix of the write
// APIs, by a client or a server endpoint, with per-message compression
// negotiated or not and any buffer sizes, is received by the peer as the same
// sequence; every frame on the wire parses under an independent RFC 6455/7692
// frame parser; the session is set up through the library's own handshake.
package c13

import (
	"time"
	"bytes"
	stdjson "encoding/json"
	"fmt"
	"io"
	"testing"

	"github.com/ossrs/go-oryx-lib/websocket"
	"verif/sim/kernel"
	"verif/sim/ref"
	"verif/sim/simnet"
	"verif/sim/wsx"
)

var bufSizes = []int64{0, 1, 2, 125, 126, 256, 512, 1000, 4096, 65536}

func gen(g *kernel.Rng, seed uint64, tier string) *kernel.Plan {
	p := &kernel.Plan{Property: "C13", Seed: seed, Cfg: map[string]int64{}}
	for _, k := range []string{"crb", "cwb", "srb", "swb"} {
		p.Cfg[k] = bufSizes[g.Intn(len(bufSizes))]
	}
	p.Cfg["comp"] = int64(g.Pick(1, 1))
	p.Cfg["compoffer"] = int64(g.Pick(6, 1, 1)) // 0 both, 1 only client offers, 2 only server enables
	p.Cfg["clevel"] = int64(g.Range(-2, 9))
	p.Cfg["slevel"] = int64(g.Range(-2, 9))
	p.Cfg["sub"] = int64(g.Intn(4))
	for _, k := range []string{"rsegC", "rsegS"} {
		p.Cfg[k] = int64(g.Pick(3, 1, 3, 1, 3))
	}
	for _, k := range []string{"wsegC", "wsegS"} {
		p.Cfg[k] = int64([]int{simnet.SegWhole, simnet.SegChunky, simnet.SegWhole, simnet.SegTape}[g.Intn(4)])
	}
	p.Cfg["eofdata"] = int64(g.Pick(2, 1, 1, 1))
	p.Cfg["rlimit"] = int64(g.Pick(2, 1)) // receivers set a read limit no message of the session reaches
	n := g.Range(1, 14)
	huge := g.Bool(0.01)
	budget := int64(300000)
	if g.Bool(0.5) {
		budget = 8000
	}
	for i := 0; i < n; i++ {
		e := g.Intn(2)
		wb := p.Cfg["cwb"]
		if e == 1 {
			wb = p.Cfg["swb"]
		}
		if wb == 0 {
			wb = 4096
		}
		var sz int64
		switch g.Pick(3, 3, 3, 2, 2) {
		case 0:
			sz = g.OneOf(0, 1, 124, 125, 126, 127)
		case 1:
			sz = g.OneOf(65534, 65535, 65536, 65537)
		case 2:
			k := int64(g.Range(1, 3))
			sz = k*wb + int64(g.Range(-15, 15))
		case 3:
			sz = int64(g.Range(0, 300))
		default:
			sz = int64(g.Range(0, 100000))
		}
		if huge && i == 0 {
			sz = int64(g.Range(1<<20, 3<<20))
		}
		if sz < 0 {
			sz = 0
		}
		if sz/wb > 3000 {
			sz = wb * 3000
		}
		if sz > budget && !(huge && i == 0) {
			sz = sz % (budget + 1)
		}
		budget -= sz
		if budget < 200 {
			budget = 200
		}
		api := int64(g.Pick(4, 4, 1, 2, 2, 2))
		readMode := int64(g.Pick(3, 3))
		if api == 5 {
			readMode = int64(g.Pick(2, 2, 3))
		}
		if g.Bool(0.08) {
			readMode = 3 // the receiver abandons the message after a prefix (NextReader discards the rest)
		} else if api != 5 && g.Bool(0.1) {
			readMode = 4 // NextReader, then exactly the payload's length with io.ReadFull (the end is never read)
		}
		p.Ops = append(p.Ops, kernel.Op{K: "m", T: e, N: []int64{int64(g.Range(1, 2)), sz, int64(g.U32()), api, int64(g.U32()), readMode, int64(g.Pick(1, 4)), int64(g.Range(-2, 9))}})
	}
	p.Tape = kernel.GenTape(g, g.Range(0, 200), 0.25)
	p.TapeSeed = g.U64() | 1
	return p
}

type sent struct {
	typ     int
	payload []byte
	err     error
	api     int64
}
type got struct {
	typ     int
	payload []byte
	partial bool // the receiver stopped reading before the end of the message
}

type endState struct {
	conn    *websocket.Conn
	sent    []sent
	got     []got
	readErr error
	jsonBad string
	abandoned int
	exact      int
	pings      int
	pongFailed int
}

func payloadOf(o kernel.Op) []byte {
	n := int(o.N[1])
	b := kernel.Fill(n, uint64(o.N[2]))
	if o.N[0] == 1 { // text: keep it ASCII
		for i := range b {
			b[i] = 32 + b[i]%95
		}
	}
	if o.N[3] == 5 { // JSON message: payload is what WriteJSON produces
		return jsonBytes(jsonValue(o))
	}
	return b
}

func jsonValue(o kernel.Op) interface{} {
	n := int(o.N[1])
	if n > 2000 {
		n = 2000
	}
	s := string(kernel.Fill(n, uint64(o.N[2])))
	return map[string]interface{}{"k": float64(o.N[2] % 1000), "s": fmt.Sprintf("%q", s), "a": []interface{}{true, nil, "x"}}
}

func jsonBytes(v interface{}) []byte {
	var b bytes.Buffer
	stdjson.NewEncoder(&b).Encode(v)
	return b.Bytes()
}

type chunkReader struct {
	b    []byte
	tape *kernel.Tape
}

func (c *chunkReader) Read(p []byte) (int, error) {
	if len(c.b) == 0 {
		return 0, io.EOF
	}
	n := len(p)
	if n > len(c.b) {
		n = len(c.b)
	}
	if n > 1 {
		n = n - c.tape.Next(n)
	}
	copy(p, c.b[:n])
	c.b = c.b[n:]
	if len(c.b) == 0 && c.tape.Next(2) == 1 {
		return n, io.EOF // a reader may deliver its last bytes together with io.EOF
	}
	return n, nil
}

func run(p *kernel.Plan) (res *kernel.Result) {
	res = &kernel.Result{}
	for _, o := range p.Ops {
		if o.K != "m" || len(o.N) < 8 || o.N[1] < 0 || o.N[1] > 8<<20 || (o.N[0] != 1 && o.N[0] != 2) || o.T < 0 || o.T > 1 ||
			o.N[3] < 0 || o.N[3] > 5 || o.N[5] < 0 || o.N[5] > 4 || (o.N[5] == 2 && o.N[3] != 5) || (o.N[5] == 4 && o.N[3] == 5) {
			// (ReadJSON is for messages written by WriteJSON; the exact-length read needs the plain payload)
			res.Invalid = true
			return
		}
	}
	tape := kernel.NewTape(p)
	s := kernel.NewSched(kernel.ModePlain, tape, 400000)
	subs := [][2][]string{{nil, nil}, {{"a", "b"}, {"b"}}, {{"a"}, {"z"}}, {nil, {"b"}}}[int(p.C("sub"))&3]
	comp := p.C("comp") != 0
	o := wsx.Opts{ClientRB: int(p.C("crb")), ClientWB: int(p.C("cwb")), ServerRB: int(p.C("srb")), ServerWB: int(p.C("swb")),
		ClientComp: comp && p.C("compoffer") != 2, ServerComp: comp && p.C("compoffer") != 1, ClientSub: subs[0], ServerSub: subs[1]}
	pr := wsx.NewPair(s, tape, o)
	pr.CC.Out.RSeg, pr.SC.Out.RSeg = int(p.C("rsegS")), int(p.C("rsegC"))
	// the transports may hand over their last bytes together with io.EOF
	pr.CC.Out.EOFData, pr.SC.Out.EOFData = p.C("eofdata")&1 != 0, p.C("eofdata")&2 != 0
	pr.CC.Out.WSeg, pr.SC.Out.WSeg = int(p.C("wsegC")), int(p.C("wsegS"))
	ends := [2]*endState{{}, {}}
	// prepared messages are shared by both endpoints and reused for equal
	// payloads: their frame cache is keyed by role, compression and level
	prepared := map[string]*websocket.PreparedMessage{}
	for _, op := range p.Ops {
		if op.N[3] == 4 {
			k := fmt.Sprintf("%d/%d/%d", op.N[0], op.N[1], op.N[2]%4)
			if prepared[k] == nil {
				o2 := op
				o2.N = append([]int64(nil), op.N...)
				o2.N[2] = op.N[2] % 4
				pm, err := websocket.NewPreparedMessage(int(op.N[0]), payloadOf(o2))
				if err == nil {
					prepared[k] = pm
				}
			}
		}
	}
	writer := func(e int) func(t *kernel.Task) {
		return func(t *kernel.Task) {
			st := ends[e]
			if e == 0 {
				pr.Dial()
				st.conn = pr.Client
			} else {
				pr.Upgrade()
				st.conn = pr.Server
			}
			if st.conn == nil {
				pr.CC.Close()
				pr.SC.Close()
				return
			}
			c := st.conn
			lvl := p.C("clevel")
			if e == 1 {
				lvl = p.C("slevel")
			}
			c.SetCompressionLevel(int(lvl))
			// pings are answered like the default handler does, except that a pong
			// that can no longer be written (this side has already finished and
			// closed its half of the transport) does not end the reading
			c.SetPingHandler(func(m string) error {
				if err := c.WriteControl(websocket.PongMessage, []byte(m), time.Now().Add(time.Hour)); err != nil {
					st.pongFailed++
				}
				return nil
			})
			var mine []kernel.Op
			for _, op := range p.Ops {
				if op.T == e {
					mine = append(mine, op)
				}
			}
			for oi, op := range mine {
				// "NextWriter closes the previous writer if the application has not
				// already done so": some writers are left open when the next message
				// goes through NextWriter (directly or inside WriteMessage/WriteJSON)
				leaveOpen := oi+1 < len(mine) && mine[oi+1].N[3] != 4 && op.N[4]%5 == 0
				if oi > 0 && mine[oi-1].N[4]%5 == 0 && mine[oi-1].N[3] >= 1 && mine[oi-1].N[3] <= 3 && op.N[3] != 4 && op.N[4]%2 == 0 {
					// the previous writer may still be open: a ping sent as a message
					// has to finish it first, like any other NextWriter
					if err := c.WriteMessage(websocket.PingMessage, []byte("k")); err != nil {
						st.sent = append(st.sent, sent{typ: websocket.PingMessage, err: err, api: 6})
						break
					}
					st.pings++
					res.Stat("pings_sent_as_messages_behind_an_open_writer", 1)
				}
				typ := int(op.N[0])
				if op.N[3] == 4 {
					op.N = append([]int64(nil), op.N...)
					op.N[2] = op.N[2] % 4 // few distinct prepared payloads, so that they get reused
				}
				data := payloadOf(op)
				c.EnableWriteCompression(op.N[6] != 0)
				if op.N[6] != 0 {
					c.SetCompressionLevel(int(op.N[7]))
				}
				var err error
				switch op.N[3] {
				case 0:
					err = c.WriteMessage(typ, data)
				case 1, 2, 3:
					var w io.WriteCloser
					w, err = c.NextWriter(typ)
					if err != nil {
						break
					}
					switch op.N[3] {
					case 1:
						rest := data
						for len(rest) > 0 && err == nil {
							n := len(rest)
							switch tape.Next(4) {
							case 1:
								n = 1
							case 2:
								n = (n + 1) / 2
							case 3:
								n = 1 + tape.Next(n)
							}
							_, err = w.Write(rest[:n])
							rest = rest[n:]
						}
					case 2:
						_, err = io.WriteString(w, string(data))
					case 3:
						_, err = io.Copy(w, &chunkReader{b: data, tape: tape})
					}
					if err == nil && !leaveOpen {
						err = w.Close()
					} else if err == nil {
						res.Stat("writers_left_open_for_the_next_message_to_close", 1)
					}
				case 4:
					pm := prepared[fmt.Sprintf("%d/%d/%d", op.N[0], op.N[1], op.N[2])]
					if pm == nil {
						pm, err = websocket.NewPreparedMessage(typ, data)
					}
					if err == nil {
						err = c.WritePreparedMessage(pm)
						res.Stat("prepared_message_writes", 1)
					}
				case 5:
					typ = websocket.TextMessage
					err = c.WriteJSON(jsonValue(op))
				}
				st.sent = append(st.sent, sent{typ, data, err, op.N[3]})
				t.Evf("sent", "e%d type=%d len=%d api=%d err=%v", e, typ, len(data), op.N[3], err)
				if err != nil {
					break
				}
			}
			t.Yield("half-close")
			if e == 0 {
				pr.CC.Out.CloseWrite()
			} else {
				pr.SC.Out.CloseWrite()
			}
		}
	}
	reader := func(e int) func(t *kernel.Task) {
		return func(t *kernel.Task) {
			st := ends[e]
			cond := pr.ClientDone()
			if e == 1 {
				cond = pr.ServerDone()
			}
			if !cond.Ready() {
				t.Block("wait-handshake", cond)
			}
			if st.conn == nil {
				return
			}
			c := st.conn
			// read modes follow the peer's ops in order
			var modes []kernel.Op
			maxLen := 0
			for _, op := range p.Ops {
				if op.T == 1-e {
					modes = append(modes, op)
					if n := len(payloadOf(op)); n > maxLen {
						maxLen = n
					}
				}
			}
			if p.C("rlimit") != 0 {
				// no message of this session comes near it (deflate may expand
				// incompressible data by a few bytes per block)
				c.SetReadLimit(int64(maxLen + maxLen/8 + 1024))
			}
			for i := 0; ; i++ {
				mode := int64(0)
				var op kernel.Op
				if i < len(modes) {
					op = modes[i]
					mode = op.N[5]
				}
				switch mode {
				case 2: // ReadJSON
					var v interface{}
					if err := c.ReadJSON(&v); err != nil {
						st.readErr = err
						return
					}
					want := jsonValue(op)
					wb, gb := jsonBytes(want), jsonBytes(v)
					if !bytes.Equal(wb, gb) && st.jsonBad == "" {
						st.jsonBad = fmt.Sprintf("message %d: ReadJSON gave %s, written %s", i, clip(gb), clip(wb))
					}
					st.got = append(st.got, got{websocket.TextMessage, wb, false})
				case 1: // NextReader + partial reads
					typ, r, err := c.NextReader()
					if err != nil {
						st.readErr = err
						return
					}
					var buf []byte
					tmp := make([]byte, 1+tape.Next(5000))
					for {
						n, err := r.Read(tmp[:1+tape.Next(len(tmp))])
						buf = append(buf, tmp[:n]...)
						if err == io.EOF {
							break
						}
						if err != nil {
							st.readErr = err
							return
						}
					}
					st.got = append(st.got, got{typ, buf, false})
				case 4: // NextReader, exactly the expected number of bytes, never the end
					typ, r, err := c.NextReader()
					if err != nil {
						st.readErr = err
						return
					}
					buf := make([]byte, len(payloadOf(op)))
					if _, err := io.ReadFull(r, buf); err != nil {
						st.readErr = err
						return
					}
					st.got = append(st.got, got{typ, buf, false})
					st.exact++
				case 3: // NextReader, a prefix, then on to the next message
					typ, r, err := c.NextReader()
					if err != nil {
						st.readErr = err
						return
					}
					var buf []byte
					stop := tape.Next(3000)
					tmp := make([]byte, 1+tape.Next(700))
					partial := true
					for len(buf) < stop {
						k := 1 + tape.Next(len(tmp))
						if k > stop-len(buf) {
							k = stop - len(buf)
						}
						n, err := r.Read(tmp[:k])
						buf = append(buf, tmp[:n]...)
						if err == io.EOF {
							partial = false
							break
						}
						if err != nil {
							st.readErr = err
							return
						}
					}
					st.got = append(st.got, got{typ, buf, partial})
					if partial {
						st.abandoned++
					}
				default:
					typ, b, err := c.ReadMessage()
					if err != nil {
						st.readErr = err
						return
					}
					st.got = append(st.got, got{typ, b, false})
				}
				t.Evf("read", "e%d #%d len=%d", e, i, len(st.got[len(st.got)-1].payload))
			}
		}
	}
	s.Go("Cw", writer(0))
	s.Go("Cr", reader(0))
	s.Go("Sw", writer(1))
	s.Go("Sr", reader(1))
	err := s.Run()
	var stuck []string
	if err != nil {
		stuck = s.Unfinished()
		pr.CC.Close()
		pr.SC.Close()
		s.Abort()
	}
	s.Join()
	res.Hash, res.Inter, res.Tail = s.Log.Hash(), s.Log.Interleaving(), s.Log.Tail(10)
	for _, pp := range []*simnet.Pipe{pr.CC.Out, pr.SC.Out} {
		res.Stat("short_reads", int64(pp.St.ShortReads))
		res.Stat("one_byte_reads", int64(pp.St.OneByteReads))
		res.Stat("split_writes", int64(pp.St.SplitWrites))
		res.Stat("transport_writes", int64(pp.St.Writes))
	}
	res.Stat("scheduler_steps", int64(s.Steps))
	if t, ok := s.FirstPanic(); ok {
		return res.Fail("C13/panic", "task %s: %v\n%s", t.Name, t.Panic, t.Stack)
	}
	if err == kernel.ErrSteps {
		return res.Fail("harness/step-limit", "%v", err)
	}
	if err != nil {
		return res.Fail("C13/no-progress", "%v: %v", err, stuck)
	}
	if pr.ClientErr != nil || pr.ServerErr != nil {
		return res.Fail("C13/handshake-failed", "Dial: %v; Upgrade: %v", pr.ClientErr, pr.ServerErr)
	}
	if m := pr.CheckHandshake(); m != "" {
		return res.Fail("C13/handshake-invalid", "%s", m)
	}
	wantDeflate := o.ClientComp && o.ServerComp
	if pr.Deflate && !wantDeflate {
		return res.Fail("C13/extension-negotiation", "permessage-deflate on the wire: %v; client offered %v, server enabled %v", pr.Deflate, o.ClientComp, o.ServerComp)
	}
	if pr.Deflate != wantDeflate {
		res.Stat("deflate_declined_although_both_enabled", 1)
	}
	// the negotiated subprotocol: both ends agree, and it is one both sides listed (or none)
	if pr.Client.Subprotocol() != pr.Server.Subprotocol() {
		return res.Fail("C13/subprotocol", "client sees subprotocol %q, server %q", pr.Client.Subprotocol(), pr.Server.Subprotocol())
	}
	if sp := pr.Client.Subprotocol(); sp != "" {
		inC, inS := false, false
		for _, x := range subs[0] {
			inC = inC || x == sp
		}
		for _, x := range subs[1] {
			inS = inS || x == sp
		}
		if !inC || !inS {
			return res.Fail("C13/subprotocol", "negotiated %q, client offered %v, server supports %v", sp, subs[0], subs[1])
		}
	}
	if pr.Deflate {
		res.Stat("sessions_with_deflate", 1)
	}
	names := []string{"client>server", "server>client"}
	for e := 0; e < 2; e++ {
		from, to := ends[e], ends[1-e]
		pipe := pr.CC.Out
		hs := pr.HsC2S
		if e == 1 {
			pipe, hs = pr.SC.Out, pr.HsS2C
		}
		for i, sm := range from.sent {
			if sm.err != nil {
				return res.Fail(fmt.Sprintf("C13/write-error:api%d", sm.api), "%s: message %d (type %d, %d bytes, api %d) failed: %v", names[e], i, sm.typ, len(sm.payload), sm.api, sm.err)
			}
		}
		// wire: every frame parses under the reference parser
		frames, used, perr := ref.WSParse(pipe.Wire[hs:], true)
		if perr != nil {
			return res.Fail("C13/wire-frame-invalid", "%s: %v", names[e], perr)
		}
		if used != len(pipe.Wire)-hs && from.pongFailed > 0 {
			// this side closed its half of the transport while its reader was
			// writing a pong: the torn pong at the very end is the harness's doing
			res.Stat("pongs_torn_by_the_half_close", 1)
		} else if used != len(pipe.Wire)-hs {
			return res.Fail("C13/wire-trailing-bytes", "%s: %d bytes after the last whole frame", names[e], len(pipe.Wire)-hs-used)
		}
		msgs, ctrl, verr := ref.WSValidate(frames, e == 0, pr.Deflate)
		if verr != nil {
			return res.Fail("C13/wire-rfc6455", "%s: %v", names[e], verr)
		}
		// control frames: the pings this endpoint sent as messages, and pongs
		// answering the peer's pings (written by this endpoint's reader)
		nping, npong := 0, 0
		for _, cf := range ctrl {
			switch {
			case cf.Op == 9 && string(cf.Payload) == "k":
				nping++
			case cf.Op == 10 && string(cf.Payload) == "k":
				npong++
			default:
				return res.Fail("C13/wire-unexpected-control", "%s: a control frame (opcode %d, %d bytes) nobody sent", names[e], cf.Op, len(cf.Payload))
			}
		}
		if nping != from.pings || npong > to.pings {
			return res.Fail("C13/wire-unexpected-control", "%s: %d pings on the wire, %d sent; %d pongs, the peer sent %d pings", names[e], nping, from.pings, npong, to.pings)
		}
		if len(msgs) != len(from.sent) {
			return res.Fail("C13/wire-message-count", "%s: %d messages written, %d on the wire", names[e], len(from.sent), len(msgs))
		}
		for i, m := range msgs {
			if int(m.Type) != from.sent[i].typ || !bytes.Equal(m.Payload, from.sent[i].payload) {
				return res.Fail(fmt.Sprintf("C13/wire-message-differs:api%d", from.sent[i].api), "%s: message %d written (type %d, %d bytes, api %d) is (type %d, %d bytes, %d frames, compressed=%v) on the wire", names[e], i, from.sent[i].typ, len(from.sent[i].payload), from.sent[i].api, m.Type, len(m.Payload), m.Frames, m.Compressed)
			}
			if m.Compressed {
				res.Stat("messages_compressed", 1)
			}
			if m.Frames > 1 {
				res.Stat("messages_fragmented", 1)
			}
			res.Stat("frames", int64(m.Frames))
		}
		for _, f := range frames {
			switch f.LenForm {
			case 16:
				res.Stat("frames_16bit_length", 1)
			case 64:
				res.Stat("frames_64bit_length", 1)
			}
		}
		// receive side
		for i := 0; i < len(from.sent) && i < len(to.got); i++ {
			if to.got[i].typ != from.sent[i].typ {
				return res.Fail("C13/received-type", "%s: message %d written as type %d received as type %d", names[e], i, from.sent[i].typ, to.got[i].typ)
			}
			if to.got[i].partial {
				res.Stat("messages_abandoned_after_a_prefix", 1)
				if !bytes.HasPrefix(from.sent[i].payload, to.got[i].payload) {
					return res.Fail(fmt.Sprintf("C13/received-prefix:api%d", from.sent[i].api), "%s: message %d (api %d): the %d bytes read before the receiver moved on are not a prefix of the %d bytes written", names[e], i, from.sent[i].api, len(to.got[i].payload), len(from.sent[i].payload))
				}
				continue
			}
			if !bytes.Equal(to.got[i].payload, from.sent[i].payload) {
				return res.Fail(fmt.Sprintf("C13/received-payload:api%d", from.sent[i].api), "%s: message %d (api %d): written %d bytes %s, received %d bytes %s", names[e], i, from.sent[i].api, len(from.sent[i].payload), clip(from.sent[i].payload), len(to.got[i].payload), clip(to.got[i].payload))
			}
		}
		if to.jsonBad != "" {
			return res.Fail("C13/json", "%s: %s", names[e], to.jsonBad)
		}
		if len(to.got) > len(from.sent) {
			return res.Fail("C13/fabricated", "%s: %d written, %d received", names[e], len(from.sent), len(to.got))
		}
		if len(to.got) < len(from.sent) {
			return res.Fail("C13/lost", "%s: %d written, %d received, then %v", names[e], len(from.sent), len(to.got), to.readErr)
		}
		if to.readErr == nil {
			return res.Fail("C13/nil-end-error", "%s: reader ended without error", names[e])
		}
		res.Stat("messages", int64(len(from.sent)))
	}
	res.Nontrivial = len(p.Ops) > 0
	res.State = uint64(p.C("cwb"))<<40 ^ uint64(p.C("swb"))<<20 ^ uint64(len(p.Ops))<<8 ^ uint64(p.C("comp"))
	return res
}

func clip(b []byte) string {
	if len(b) > 40 {
		return fmt.Sprintf("%q…", b[:40])
	}
	return fmt.Sprintf("%q", b)
}

var Check = &kernel.Check{
	ID: "C13", Gen: gen, Run: run, ResetPools: true,
	Probes: func() map[string]*kernel.Plan {
		return map[string]*kernel.Plan{
			// fixed: the skipped continuation frame of an abandoned fragmented message
			// was charged to the next message's read limit
			"abandoned-fragmented": {Property: "C13", Cfg: map[string]int64{"clevel": 5, "slevel": 2, "rlimit": 1}, Ops: []kernel.Op{
				{K: "m", N: []int64{1, 8188, 0, 0, 0, 3, 0, 0}},
				{K: "m", N: []int64{1, 8188, 0, 0, 0, 0, 0, 0}},
			}},
		}
	},
	Simpler: map[string][]int64{"crb": {0, 4096}, "cwb": {0, 4096}, "srb": {0, 4096}, "swb": {0, 4096}, "comp": {0}, "compoffer": {0}, "sub": {0}, "rsegC": {0}, "rsegS": {0}, "wsegC": {0}, "wsegS": {0}},
}

func TestCheck(t *testing.T) { kernel.Drive(t, Check) }
