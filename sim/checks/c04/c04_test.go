// C04: with one goroutine sending requests and another reading responses on the
// same connection, every response that arrives after its request was handed to
// the transport is matched to that request and decoded as its response type; no
// response is matched twice, none is lost; no data race, no spurious "no matched
// request".
//
// Oracle engine: endpoint A runs two tasks (W sends connect/createStream, R
// reads and decodes); the peer P is a real Protocol that answers each request it
// has fully received, optionally delayed, batched or duplicated. The sim
// transport deposits W's bytes and then yields, so the tape can run P and R to
// completion inside W's write call.
// Race engine (VERIF_ENGINE=race, -race build): the same plans on raw futex
// gates; the verdict is the race detector's.
package c04

import (
	"strings"
	"fmt"
	"io"
	"os"
	"reflect"
	"testing"
	"time"

	"github.com/anishathalye/porcupine"
	"github.com/ossrs/go-oryx-lib/amf0"
	oe "github.com/ossrs/go-oryx-lib/errors"
	"github.com/ossrs/go-oryx-lib/rtmp"
	"verif/sim/kernel"
	"verif/sim/rtmpx"
	"verif/sim/simnet"
)

var raceEngine = os.Getenv("VERIF_ENGINE") == "race"

func gen(g *kernel.Rng, seed uint64, tier string) *kernel.Plan {
	p := &kernel.Plan{Property: "C04", Seed: seed, Cfg: map[string]int64{}}
	p.Cfg["rsegA"] = int64(g.Pick(3, 1, 3, 1, 3))
	p.Cfg["rsegB"] = int64(g.Pick(3, 1, 3, 1, 3))
	p.Cfg["wsegA"] = int64([]int{simnet.SegWhole, simnet.SegChunky, simnet.SegWhole, simnet.SegTape}[g.Intn(4)])
	p.Cfg["wsegB"] = int64([]int{simnet.SegWhole, simnet.SegChunky}[g.Intn(2)])
	p.Cfg["post"] = int64(g.Pick(1, 6))
	p.Cfg["hs"] = int64(g.Pick(7, 3))
	// W raises its own chunk size first, and its requests carry a long string:
	// above the writer's buffer size the tail of a request goes to the transport
	// straight from the chunking loop, before any flush
	p.Cfg["wscs"] = g.OneOf(0, 0, 0, 0, 4096, 60000, 1<<22)
	p.Cfg["bigreq"] = g.OneOf(0, 0, 0, 0, 5000, 9000, 20000)
	n := g.Range(1, 12)
	long := g.Bool(0.03)
	if long {
		n = g.Range(130, 300) // a long-lived connection: hundreds of requests
	}
	tid := int64(8) // quarters: createStream ids 2, 3, ...
	connected := false
	for i := 0; i < n; i++ {
		// N: [tid*4, respond-mode (0 at once, 1 delayed until the next request, 2 at end), duplicate-response, pad nodes]
		mode := int64(g.Pick(5, 2, 1))
		dup := int64(g.Pick(4, 1))
		if !connected && g.Bool(0.5) {
			connected = true
			p.Ops = append(p.Ops, kernel.Op{K: "connect", T: 0, N: []int64{4, mode, dup, int64(g.Range(1, 20)), int64(g.U32()), int64(g.Pick(4, 1)), int64(g.Pick(4, 1)), int64(g.Pick(5, 1))}})
			continue
		}
		// the last argument: the peer sends a user-control ping request ahead of this response
		p.Ops = append(p.Ops, kernel.Op{K: "createStream", T: 0, N: []int64{tid, mode, dup, int64(g.Pick(5, 1)), int64(g.Pick(4, 1)), int64(g.Pick(5, 1))}}) // ..., ping, response sent as an AMF3 command message
		if long {
			tid += 4
			continue
		}
		tid += 4 * g.OneOf(1, 1, 2, 3, 15, 16, 31, 32, 63, 64, 255, 256, 1000)
	}
	if g.Bool(0.25) {
		// the transport fails at some write call of W (accepting nothing, a few bytes, or everything)
		p.Faults = append(p.Faults, kernel.Fault{K: "werr", W: "AB", At: int64(g.Range(0, 3*n+2)), Arg: g.OneOf(0, 3, 1<<40)})
	}
	p.Tape = kernel.GenTape(g, g.Range(0, 200), 0.3)
	p.TapeSeed = g.U64() | 1
	return p
}

type reqRec struct {
	op           int
	name         string
	tid          float64
	step0, step1 int
	endOff       int64
	err          error
	depStep      int
}

type decRec struct {
	step0, step int
	tid         float64
	hasTid      bool
	pktType     string
	err         error
}

type pend struct {
	name string
	tid  amf0.Number
	mode int64
	dup  int64
	scs  int64 // the peer announces a new chunk size right before this response
	ping int64 // the peer sends a user-control ping request right before this response
	amf3 int64 // the response goes out as an AMF3 command message (type 17: a zero byte, then the AMF0 body)
}

// porcupine model: the set of outstanding transaction ids.
type pin struct {
	reg bool
	tid float64
}

func checkLinearizable(reqs []reqRec, decs []decRec) (porcupine.CheckResult, int) {
	model := porcupine.Model{
		Init: func() interface{} { return map[float64]bool{} },
		Step: func(state, input, output interface{}) (bool, interface{}) {
			st := state.(map[float64]bool)
			in := input.(pin)
			ns := map[float64]bool{}
			for k, v := range st {
				ns[k] = v
			}
			if in.reg {
				ns[in.tid] = true
				return true, ns
			}
			found := output.(bool)
			if st[in.tid] != found {
				return false, st
			}
			delete(ns, in.tid)
			return true, ns
		},
		Equal: func(a, b interface{}) bool { return reflect.DeepEqual(a, b) },
	}
	var ops []porcupine.Operation
	for _, r := range reqs {
		// send = [call, bytes handed over]; a request whose write failed is
		// registered all the same, its interval ends when the call returned
		ret := r.depStep
		if r.err != nil || ret < 0 {
			ret = r.step1
		}
		ops = append(ops, porcupine.Operation{ClientId: 0, Input: pin{true, r.tid}, Call: int64(r.step0) * 2, Output: true, Return: int64(ret)*2 + 1})
	}
	for _, d := range decs {
		if !d.hasTid {
			continue
		}
		ops = append(ops, porcupine.Operation{ClientId: 1, Input: pin{false, d.tid}, Call: int64(d.step0) * 2, Output: d.err == nil, Return: int64(d.step)*2 + 1})
	}
	if len(ops) == 0 {
		return porcupine.Ok, 0
	}
	return porcupine.CheckOperationsTimeout(model, ops, 5*time.Second), len(ops)
}

func run(p *kernel.Plan) (res *kernel.Result) {
	res = &kernel.Result{}
	for _, o := range p.Ops {
		if (o.K != "connect" && o.K != "createStream") || len(o.N) < 3 || o.N[0] <= 0 {
			res.Invalid = true
			return
		}
	}
	mode := kernel.ModePlain
	if raceEngine {
		mode = kernel.ModeFutex
	}
	s := rtmpx.NewSession(p, mode, 200000)
	s.SkipHandshake = raceEngine || p.C("hs") == 0
	s.NoHalfClose = true
	// the write fault counts W's write calls after the handshake
	faultAt := s.A.Conn.Out.WErrAt
	s.A.Conn.Out.WErrAt = -1
	armed := false
	wfailed := false  // touched by task Aw only
	var reqs []reqRec // written by task Aw only
	var decs []decRec // written by task Ar only
	var answered, dupSent, scsSent, pingSent, amf3Sent, bigReqs, ownScs int
	// packets are built here, outside the tasks (building uses fmt; see Task.Evf)
	pkts := make([]rtmp.Packet, len(p.Ops))
	for i, op := range p.Ops {
		if op.K == "connect" {
			pkts[i], _ = rtmpx.BuildPacket(kernel.Op{K: "connect", N: []int64{op.N[4], op.N[3], 0, 0}})
		} else {
			c := rtmp.NewCreateStreamPacket()
			c.TransactionID = amf0.Number(float64(op.N[0]) / 4)
			pkts[i] = c
		}
		if n := p.C("bigreq"); n > 0 && i%2 == 0 {
			pad := amf0.NewString(strings.Repeat("p", int(n)))
			switch q := pkts[i].(type) {
			case *rtmp.ConnectAppPacket:
				q.CommandObject.Set("zpad", pad)
				bigReqs++
			case *rtmp.CreateStreamPacket:
				o := amf0.NewObject()
				o.Set("zpad", pad)
				q.CommandObject = o
				bigReqs++
			}
		}
	}
	s.Hook = func(s *rtmpx.Session, e *rtmpx.End, t *kernel.Task, i int, op kernel.Op) bool {
		if e != s.A {
			return true
		}
		if !armed {
			armed = true
			if n := p.C("wscs"); n > 0 {
				sc := rtmp.NewSetChunkSize()
				sc.ChunkSize = uint32(n)
				if err := e.Proto.WritePacket(sc, 0); err != nil {
					wfailed = true
				}
				ownScs++
			}
			if faultAt >= 0 {
				e.Conn.Out.WErrAt = e.Conn.Out.St.Writes + faultAt
			}
		}
		if wfailed {
			return true // the connection is broken for the writer: no further requests
		}
		pkt := pkts[i]
		rec := reqRec{op: i, tid: float64(op.N[0]) / 4, depStep: -1}
		if op.K == "connect" {
			rec.name, rec.tid = "connect", 1
		} else {
			rec.name = "createStream"
		}
		rec.step0 = s.S.Now()
		rec.err = e.Proto.WritePacket(pkt, 0)
		rec.step1 = s.S.Now()
		rec.endOff = e.Conn.Out.Total
		if rec.err != nil {
			wfailed = true
		}
		reqs = append(reqs, rec)
		t.Evf("request", "%s tid=%v err=%v", rec.name, rec.tid, rec.err)
		return true
	}
	// plan lookup for the peer: how to answer the k-th request it receives
	var how []kernel.Op
	for _, o := range p.Ops {
		how = append(how, o)
	}
	s.ReaderFn = func(s *rtmpx.Session, e *rtmpx.End, t *kernel.Task) {
		if e == s.A {
			// R: read and decode every response
			for {
				d := decRec{step0: s.S.Now()}
				m, err := e.Proto.ReadMessage()
				if err != nil {
					e.RecvErr = err
					t.Evf("reader-end", "%v", err)
					return
				}
				d.step0 = s.S.Now()
				if m.MessageType == rtmp.MessageTypeSetChunkSize {
					continue // the peer's chunk size announcement (applied by ReadMessage)
				}
				if m.MessageType == rtmp.MessageTypeUserControl {
					e.Proto.DecodeMessage(m) // the peer's ping request: not a response
					continue
				}
				body := m.Payload
				if m.MessageType == rtmp.MessageTypeAMF3Command && len(body) > 0 {
					body = body[1:]
				}
				if tid, ok := peekTid(body); ok {
					d.tid, d.hasTid = tid, true
				}
				pkt, err := e.Proto.DecodeMessage(m)
				d.step, d.err = s.S.Now(), err
				if pkt != nil && err == nil {
					d.pktType = reflect.TypeOf(pkt).String()
				}
				decs = append(decs, d)
				t.Evf("decoded", "tid=%v type=%s err=%v", d.tid, d.pktType, err)
			}
		}
		// P: answer requests fully received
		var pending []pend
		respond := func(q pend) bool {
			var pkt rtmp.Packet
			if q.name == "connect" {
				pkt = rtmp.NewConnectAppResPacket(q.tid)
			} else {
				r := rtmp.NewCreateStreamResPacket(q.tid)
				r.StreamID = 1
				pkt = r
			}
			if q.scs != 0 {
				sc := rtmp.NewSetChunkSize()
				sc.ChunkSize = uint32(200 + 100*q.scs + int64(answered))
				if err := e.Proto.WritePacket(sc, 0); err != nil {
					return false
				}
				scsSent++
			}
			if q.ping != 0 {
				uc := rtmp.NewUserControl()
				uc.EventType = rtmp.EventTypePingRequest
				uc.EventData = int32(1000 + answered)
				if err := e.Proto.WritePacket(uc, 0); err != nil {
					return false
				}
				pingSent++
			}
			n := 1 + int(q.dup)
			for k := 0; k < n; k++ {
				if q.amf3 != 0 {
					body, _ := pkt.MarshalBinary()
					m := rtmp.NewStreamMessage(0)
					m.MessageType = rtmp.MessageTypeAMF3Command
					m.Payload = append([]byte{0}, body...)
					if err := e.Proto.WriteMessage(m); err != nil {
						return false
					}
					amf3Sent++
				} else if err := e.Proto.WritePacket(pkt, 0); err != nil {
					return false
				}
				if k > 0 {
					dupSent++
				}
			}
			answered++
			return true
		}
		flush := func(all bool) bool {
			var keep []pend
			for _, q := range pending {
				if all || q.mode == 1 {
					if !respond(q) {
						return false
					}
				} else {
					keep = append(keep, q)
				}
			}
			pending = keep
			return true
		}
		k := 0
		for {
			m, err := e.Proto.ReadMessage()
			if err != nil {
				flush(true)
				e.Conn.Out.CloseWrite()
				return
			}
			pkt, err := e.Proto.DecodeMessage(m)
			if err != nil {
				continue
			}
			var q pend
			switch r := pkt.(type) {
			case *rtmp.ConnectAppPacket:
				q = pend{name: "connect", tid: r.TransactionID}
			case *rtmp.CallPacket:
				q = pend{name: "createStream", tid: r.TransactionID}
			case *rtmp.CreateStreamPacket: // an implementation may hand createStream over as its dedicated type
				q = pend{name: "createStream", tid: r.TransactionID}
			default:
				continue
			}
			if k < len(how) {
				q.mode, q.dup = how[k].N[1], how[k].N[2]
				if how[k].K == "connect" && len(how[k].N) > 5 {
					q.scs = how[k].N[5]
				} else if how[k].K == "createStream" && len(how[k].N) > 3 {
					q.scs = how[k].N[3]
				}
				if how[k].K == "connect" && len(how[k].N) > 6 {
					q.ping = how[k].N[6]
				} else if how[k].K == "createStream" && len(how[k].N) > 4 {
					q.ping = how[k].N[4]
				}
				if how[k].K == "connect" && len(how[k].N) > 7 {
					q.amf3 = how[k].N[7]
				} else if how[k].K == "createStream" && len(how[k].N) > 5 {
					q.amf3 = how[k].N[5]
				}
			}
			k++
			// requests delayed "until the next request" are released now
			if !flush(false) {
				return
			}
			if q.mode == 0 {
				if !respond(q) {
					return
				}
			} else {
				pending = append(pending, q)
			}
		}
	}
	// A's writer half-closes when done (NoHalfClose only stops B's idle writer
	// from ending the stream P still answers on)
	s.ExtraTasks = nil
	// preemption points inserted into the scratch copy of package rtmp
	installHook(func(point string) {
		// no preemption while the task holds a mutex of the library: a task
		// parked there would block the others on a real lock
		if t := s.S.Cur(); t != nil && t.LockDepth <= 0 {
			t.Yield(point)
		}
	})
	installLock(func(delta int) {
		if t := s.S.Cur(); t != nil {
			t.LockDepth += delta
		}
	})
	s.Run2(func(e *rtmpx.End) bool { return e == s.A })
	installHook(nil)
	installLock(nil)
	s.ApplyStats(res)
	if raceEngine {
		res.Nontrivial = len(p.Ops) > 0
		res.Stat("race_engine_runs", 1)
		res.Stat("releases_left_blocked_on_a_real_lock", int64(s.S.RealBlocked))
		res.Stat("requests", int64(len(reqs)))
		res.Stat("responses_decoded", int64(len(decs)))
		if t, ok := s.S.FirstPanic(); ok {
			return res.Fail("C04/panic", "task %s: %v\n%s", t.Name, t.Panic, t.Stack)
		}
		if s.Err != nil {
			for _, u := range s.Stuck {
				if strings.HasSuffix(u, "@blocked-in-library") {
					// no gate of the race engine is inside a critical section of the
					// library, so a task that never leaves the library is blocked on
					// a lock nobody will release
					return res.Fail("C04/no-progress", "deadlock inside the library: %v %v", s.Err, s.Stuck)
				}
			}
			return res.Fail("harness/race-engine-run", "%v %v", s.Err, s.Stuck)
		}
		return res
	}
	if t, ok := s.S.FirstPanic(); ok {
		return res.Fail("C04/panic", "task %s: %v\n%s", t.Name, t.Panic, t.Stack)
	}
	if s.Err == kernel.ErrSteps {
		return res.Fail("harness/step-limit", "%v", s.Err)
	}
	if s.Err != nil {
		return res.Fail("C04/no-progress", "%v: %v", s.Err, s.Stuck)
	}
	for _, e := range []*rtmpx.End{s.A, s.B} {
		if e.HsErr != nil {
			return res.Fail("C04/handshake", "%v", e.HsErr)
		}
	}
	// direct oracle on the totally ordered event log
	ab := s.A.Conn.Out
	byTid := map[float64]*reqRec{}
	okReqs := 0
	for i := range reqs {
		r := &reqs[i]
		if r.err != nil {
			if !ab.WFaultFired {
				return res.Fail("C04/write-error", "request %s tid=%v: %v", r.name, r.tid, r.err)
			}
			res.Stat("requests_failed_by_write_fault", 1)
			// its bytes may or may not have reached the peer completely
			r.depStep = ab.StepReached(r.endOff)
			byTid[r.tid] = r
			continue
		}
		okReqs++
		r.depStep = ab.StepReached(r.endOff)
		byTid[r.tid] = r
	}
	matched := map[float64]int{}
	inWrite := 0
	for _, d := range decs {
		if !d.hasTid {
			return res.Fail("C04/decode", "a response without a transaction id was decoded: %v", d.err)
		}
		r := byTid[d.tid]
		if r == nil {
			return res.Fail("C04/fabricated", "a response for tid=%v was decoded although no such request was sent", d.tid)
		}
		want := map[string]string{"connect": "*rtmp.ConnectAppResPacket", "createStream": "*rtmp.CreateStreamResPacket"}[r.name]
		handedOver := r.depStep >= 0 && r.depStep <= d.step0
		if d.step0 <= r.step1 {
			inWrite++
		}
		if matched[d.tid] == 0 {
			// first response for this id: its request bytes had entirely reached the transport
			if !handedOver {
				return res.Fail("harness/causality", "response for tid=%v decoded at step %d before its request was handed over at step %d", d.tid, d.step0, r.depStep)
			}
			if d.err != nil {
				k := "C04/unmatched-response"
				if d.step0 > r.step1 {
					k = "C04/unmatched-response-after-return"
				}
				return res.Fail(k, "the %s request tid=%v was handed to the transport at step %d (WritePacket called at step %d, returned at step %d); its response was decoded at steps %d..%d and failed: %v", r.name, r.tid, r.depStep, r.step0, r.step1, d.step0, d.step, d.err)
			}
			if d.pktType != want {
				return res.Fail("C04/wrong-response-type", "response for the %s request tid=%v decoded as %s, want %s", r.name, r.tid, d.pktType, want)
			}
			matched[d.tid]++
		} else {
			// a second response for the same id must not be matched again
			if d.err == nil {
				return res.Fail("C04/matched-twice", "a second response for tid=%v (request %s) was matched again as %s", d.tid, r.name, d.pktType)
			}
			matched[d.tid]++
		}
	}
	if len(decs) != answered+dupSent {
		return res.Fail("C04/lost-response", "the peer sent %d responses, the reader decoded %d (reader ended with %v)", answered+dupSent, len(decs), s.A.RecvErr)
	}
	if answered < okReqs || answered > len(reqs) {
		return res.Fail("C04/lost-request", "%d requests written completely (%d attempted), the peer received and answered %d", okReqs, len(reqs), answered)
	}
	for _, r := range reqs {
		if r.err != nil {
			continue
		}
		if matched[r.tid] == 0 {
			return res.Fail("C04/lost-response", "request %s tid=%v never got its response matched", r.name, r.tid)
		}
	}
	if c := oe.Cause(s.A.RecvErr); c != io.EOF && c != io.ErrUnexpectedEOF {
		return res.Fail("C04/end-error", "reader ended with %v", s.A.RecvErr)
	}
	// cross-check: the history must be linearizable against the sequential map
	lin, nops := checkLinearizable(reqs, decs)
	if lin == porcupine.Illegal {
		return res.Fail("C04/not-linearizable", "porcupine: the history of %d register/lookup operations is not linearizable against the sequential transaction map", nops)
	}
	if lin == porcupine.Unknown {
		res.Stat("porcupine_inconclusive", 1)
	}
	res.Stat("porcupine_histories_checked", 1)
	if preemptionPoints {
		res.Stat("runs_with_inserted_preemption_points", 1)
	}
	res.Stat("requests", int64(len(reqs)))
	res.Stat("responses_decoded", int64(len(decs)))
	res.Stat("responses_decoded_inside_write_call", int64(inWrite))
	res.Stat("duplicate_responses", int64(dupSent))
	res.Stat("peer_set_chunk_size_before_response", int64(scsSent))
	res.Stat("peer_ping_request_before_response", int64(pingSent))
	res.Stat("responses_sent_as_amf3_command", int64(amf3Sent))
	res.Stat("requests_with_long_string", int64(bigReqs))
	res.Stat("writer_raised_own_chunk_size", int64(ownScs))
	res.Nontrivial = len(reqs) > 0
	res.State = uint64(len(reqs))<<16 | uint64(inWrite)<<8 | uint64(dupSent)
	return res
}

// peekTid reads the transaction id of an AMF0 command payload.
func peekTid(b []byte) (float64, bool) {
	var name amf0.String
	if err := name.UnmarshalBinary(b); err != nil {
		return 0, false
	}
	var n amf0.Number
	if err := n.UnmarshalBinary(b[name.Size():]); err != nil {
		return 0, false
	}
	return float64(n), true
}

var Check = &kernel.Check{
	ID: "C04", Gen: gen, Run: run, Race: raceEngine,
	LibPaths: []string{"/repo/", "go-oryx-lib"},
	Simpler:  map[string][]int64{"rsegA": {0}, "rsegB": {0}, "wsegA": {0}, "wsegB": {0}, "hs": {0}},
	Probes: func() map[string]*kernel.Plan {
		return map[string]*kernel.Plan{
			// fixed: the peer answers from inside the writer's call (post-write yield lets P and R run first)
			"answer-inside-write": {Property: "C04", Cfg: map[string]int64{"post": 1}, Tape: []uint32{0, 0, 0, 0, 0, 0, 0, 0, 0, 0, 0, 0, 0, 0, 0, 0}, Ops: []kernel.Op{
				{K: "createStream", N: []int64{8, 0, 0}},
			}},
		}
	},
}

func TestCheck(t *testing.T) { kernel.Drive(t, Check) }

var _ = fmt.Sprint
