//go:build !c04scratch

package c04

// built against /repo as it is: interleaving at transport operations only
const preemptionPoints = false

func installHook(h func(point string)) {}

func installLock(h func(delta int)) {}
