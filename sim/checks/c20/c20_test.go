// C20: rate meters report the counter's growth over the last full window.
// The public API runs in a testing/synctest bubble (fake clock, real sampler
// goroutine); the counter source is the seam for scripted histories and stalls.
package c20

import (
	"fmt"
	"math"
	"sort"
	"testing"
	"time"

	"github.com/ossrs/go-oryx-lib/kxps"
	"verif/sim/kernel"
)

// ---------- plan ----------

func gen(g *kernel.Rng, seed uint64, tier string) *kernel.Plan {
	p := &kernel.Plan{Property: "C20", Seed: seed, Cfg: map[string]int64{}}
	p.Cfg["kind"] = int64(g.Intn(2))
	dur := int64(g.OneOf(45, 130, 400, 700, 1300, 3700, 7200)) * 1000
	p.Cfg["dur"] = dur
	p.Cfg["startAt"] = int64(g.OneOf(0, 0, 1, 500, 3000, 12345))
	stalls := g.Bool(0.4)
	// counter history: offsets (< 2^62) above a base; the base is 0 or just
	// below 2^64 (wrap-around), so that direction is always unambiguous
	t := int64(0)
	base := uint64(0)
	if g.Bool(0.05) {
		base = math.MaxUint64 - 4096
	} else if g.Bool(0.05) {
		base = 1<<63 - 4096 // the counter crosses the sign bit of an int64
	}
	off := uint64(g.OneOf(0, 0, 1, 100, 1<<40, 4000))
	p.Cfg["first"] = int64(base + off)
	mode := g.Intn(5)
	for t < dur && len(p.Ops) < 400 {
		var dt int64
		switch g.Pick(4, 3, 2, 1) {
		case 0:
			dt = int64(g.Range(200, 3000))
		case 1:
			dt = 10000
		case 2:
			dt = int64(g.Range(1, 100))
		default:
			dt = int64(g.Range(20000, 400000)) // stall of the counter
		}
		if dur > 1000000 {
			dt *= 8
		}
		t += dt
		if t >= dur {
			break
		}
		switch {
		case g.Bool(0.03): // reset to a smaller value or to 0
			off = uint64(g.OneOf(0, 0, 1, int64(off/2), 7))
			if base != 0 && off < 4097 {
				off = 4097 + off // stay on the wrapped side: still "backwards"
			}
		case g.Bool(0.02): // jump
			off += uint64(g.OneOf(1<<32, 1<<50, 1<<58))
		default:
			switch mode {
			case 0:
				off += uint64(g.Range(1, 50))
			case 1:
				off += uint64(g.Range(0, 3))
			case 2:
				off += uint64(g.Range(1000, 2000000))
			case 3:
				off += uint64(dt) * 125 // steady 1 Mbit/s
			default:
				off += uint64(g.OneOf(0, 0, 1, 10000))
			}
		}
		if off >= 1<<61 {
			off = 1 << 60
		}
		p.Ops = append(p.Ops, kernel.Op{K: "set", N: []int64{t, int64(base + off)}})
	}
	if stalls {
		n := g.Range(1, 6)
		for i := 0; i < n; i++ {
			d := g.OneOf(1, 500, 3000, 9999, 10000, 15000, 31000, 95000, 400000)
			if dur > 1000000 && g.Bool(0.3) {
				d = g.OneOf(700000, 1500000) // a pause longer than two of the longest windows
			}
			p.Ops = append(p.Ops, kernel.Op{K: "stall", N: []int64{g.I64n(dur), d}})
		}
	}
	na := g.Range(0, 8)
	for i := 0; i < na; i++ {
		p.Ops = append(p.Ops, kernel.Op{K: "avg", N: []int64{g.I64n(dur)}})
	}
	return p
}

// ---------- source seam ----------

type change struct {
	at  time.Duration
	val uint64
}
type stall struct{ from, to time.Duration }

type obs struct {
	at      time.Duration
	val     uint64
	sampler bool
}

type source struct {
	t0      time.Time
	first   uint64
	changes []change
	stalls  []stall
	log     []obs
	harness uint64 // goroutine id of the harness
	stalled int
	inStall bool
}

// settle waits (in simulated time) until the sampler is not parked inside the
// source while holding the meter's lock; Close() takes that lock.
func (s *source) settle() {
	for i := 0; s.inStall && i < 100000; i++ {
		time.Sleep(time.Second)
		syncWait()
	}
}

func (s *source) valueAt(d time.Duration) uint64 {
	v := s.first
	for _, c := range s.changes {
		if c.at <= d {
			v = c.val
		} else {
			break
		}
	}
	return v
}

func (s *source) count() uint64 {
	at := time.Since(s.t0)
	sampler := kernelGid() != s.harness
	if sampler {
		for _, st := range s.stalls {
			now := time.Since(s.t0)
			if now >= st.from && now < st.to {
				s.stalled++
				s.inStall = true
				time.Sleep(st.to - now) // a slow source: the sampler is stalled
				s.inStall = false
			}
		}
	}
	v := s.valueAt(time.Since(s.t0))
	s.log = append(s.log, obs{at, v, sampler})
	return v
}

func (s *source) NbRequests() uint64 { return s.count() }
func (s *source) TotalBytes() uint64 { return s.count() }

func kernelGid() uint64 { return kernel.CurGid() }

// ---------- model of the statement ----------

type head struct {
	at  time.Duration
	val uint64
}

type window struct {
	w     time.Duration
	heads []head // possible previous samples of this window
	prev  float64
	init  bool
}

func rate(from, to uint64, w time.Duration, scale float64) float64 {
	d := int64(to - from)
	if d <= 0 {
		return 0
	}
	return float64(d) * 1000 / float64(w/time.Millisecond) * scale
}

func near(a, b float64) bool {
	if a == b {
		return true
	}
	return math.Abs(a-b) <= 1e-9*math.Max(math.Abs(a), math.Abs(b))
}

type getters struct {
	r [3]func() float64
	a func() float64
}

func safe(f func() float64) (v float64, panicked bool) {
	defer func() {
		if r := recover(); r != nil {
			panicked = true
		}
	}()
	return f(), false
}

func run(p *kernel.Plan) (res *kernel.Result) {
	res = &kernel.Result{}
	dur := time.Duration(p.C("dur")) * time.Millisecond
	if dur <= 0 || dur > 3*time.Hour {
		res.Invalid = true
		return
	}
	src := &source{t0: time.Now(), first: uint64(p.C("first")), harness: kernel.CurGid()}
	var avgAt []time.Duration
	for _, o := range p.Ops {
		switch o.K {
		case "set":
			if len(o.N) < 2 || o.N[0] < 0 {
				res.Invalid = true
				return
			}
			src.changes = append(src.changes, change{time.Duration(o.N[0]) * time.Millisecond, uint64(o.N[1])})
		case "stall":
			if len(o.N) < 2 || o.N[0] < 0 || o.N[1] <= 0 || o.N[1] > 3600000 {
				res.Invalid = true
				return
			}
			src.stalls = append(src.stalls, stall{time.Duration(o.N[0]) * time.Millisecond, time.Duration(o.N[0]+o.N[1]) * time.Millisecond})
		case "avg":
			if len(o.N) < 1 || o.N[0] < 0 {
				res.Invalid = true
				return
			}
			avgAt = append(avgAt, time.Duration(o.N[0])*time.Millisecond)
		default:
			res.Invalid = true
			return
		}
	}
	sort.SliceStable(src.changes, func(i, j int) bool { return src.changes[i].at < src.changes[j].at })
	// direction must be unambiguous: every value lies less than 2^62 above the band's base
	base := src.first
	switch {
	case base >= math.MaxUint64-4096:
		base = math.MaxUint64 - 4096
	case base >= 1<<63-4096:
		base = 1<<63 - 4096
	default:
		base = 0
	}
	for _, ch := range append([]change{{0, src.first}}, src.changes...) {
		if ch.val-base >= 1<<62 {
			res.Invalid = true
			return
		}
	}
	sort.Slice(avgAt, func(i, j int) bool { return avgAt[i] < avgAt[j] })
	scale := 1.0
	var g getters
	var start func() error
	var closeFn func() error
	if p.C("kind") == 0 {
		m := kxps.NewKrps(nil, src)
		g = getters{[3]func() float64{m.Rps10s, m.Rps30s, m.Rps300s}, m.Average}
		start, closeFn = m.Start, m.Close
	} else {
		m := kxps.NewKbps(nil, src)
		g = getters{[3]func() float64{m.Kbps10s, m.Kbps30s, m.Kbps300s}, m.Average}
		start, closeFn = m.Start, m.Close
		scale = 8.0 / 1000
	}
	fail := func(key, f string, a ...any) *kernel.Result {
		// leave the bubble clean: stop the sampler
		src.settle()
		closeFn()
		time.Sleep(11 * time.Second)
		return res.Fail(key, f, a...)
	}
	// reading a rate before the meter is started is refused
	for i, f := range append(g.r[:], g.a) {
		if _, pan := safe(f); !pan {
			return res.Fail("C20/read-before-start-accepted", "getter %d returned a value before Start()", i)
		}
	}
	res.Stat("getters_refused_before_start", 4)
	{
		// a meter that was closed without ever being started has not been started either
		var g2 getters
		if p.C("kind") == 0 {
			m := kxps.NewKrps(nil, src)
			m.Close()
			g2 = getters{[3]func() float64{m.Rps10s, m.Rps30s, m.Rps300s}, m.Average}
		} else {
			m := kxps.NewKbps(nil, src)
			m.Close()
			g2 = getters{[3]func() float64{m.Kbps10s, m.Kbps30s, m.Kbps300s}, m.Average}
		}
		for i, f := range append(g2.r[:], g2.a) {
			if _, pan := safe(f); !pan {
				return res.Fail("C20/read-before-start-accepted", "getter %d returned a value on a meter that was closed but never started", i)
			}
		}
	}
	time.Sleep(time.Duration(p.C("startAt")) * time.Millisecond)
	if err := start(); err != nil {
		return res.Fail("C20/start-error", "%v", err)
	}
	wins := []*window{{w: 10 * time.Second}, {w: 30 * time.Second}, {w: 300 * time.Second}}
	seen := 0        // sampler observations consumed by the model
	var samplerObs []obs
	regular := true
	monotone := true
	firstNZ := -1
	var avgBase *head
	nextAvg := 0
	fired := [3]int{}
	staleRun := [3]int{} // consecutive samples whose value cannot stem from a window closing at them
	eventFree := 0       // consecutive samples since the last backward step / zero / first sample after zeros
	for now := time.Since(src.t0); now < dur; now = time.Since(src.t0) {
		// advance to the next second boundary or Average() call, whichever is first
		next := now + time.Second
		if nextAvg < len(avgAt) && avgAt[nextAvg] > now && avgAt[nextAvg] < next {
			next = avgAt[nextAvg]
		}
		time.Sleep(next - now)
		syncWait()
		if src.inStall {
			// the sampler is parked inside the (slow) source and may hold the
			// meter's lock: a getter that takes that lock would block on a
			// sync.Mutex, which the bubble cannot see as blocked; poll later
			continue
		}
		at := time.Since(src.t0)
		// Average() calls due
		for nextAvg < len(avgAt) && avgAt[nextAvg] <= at {
			nextAvg++
			li := len(src.log)
			v, pan := safe(g.a)
			if pan {
				return fail("C20/getter-panic", "Average() panicked on a started meter at %v", at)
			}
			if math.IsNaN(v) || math.IsInf(v, 0) || v < 0 {
				return fail("C20/average-not-finite-nonnegative", "Average() = %v at %v", v, at)
			}
			if len(src.log) == li {
				return fail("harness/avg-no-observation", "Average() did not read the source")
			}
			o := src.log[li] // time of the call, value it saw
			last := src.log[len(src.log)-1]
			// "the time since the first non-zero observation": the anchor may be the
			// first non-zero observation made by an Average() call (as the library
			// does; that call returns 0) or the sampler's first non-zero observation
			var wants []float64
			avgOf := func(b head) float64 {
				d := int64(last.val - b.val)
				ms := int64((o.at - b.at) / time.Millisecond)
				if d <= 0 || ms <= 0 {
					return 0
				}
				return float64(d) * 1000 / float64(ms) * scale
			}
			switch {
			case last.val == 0:
				wants = []float64{0}
			case avgBase == nil:
				avgBase = &head{o.at, last.val}
				wants = []float64{0}
			default:
				wants = []float64{avgOf(*avgBase)}
			}
			if last.val != 0 {
				// (looked up in the source's log: a sample taken since the last
				// polling step has not been moved to samplerObs yet)
				for _, so := range src.log[:li] {
					if so.sampler && so.val != 0 {
						wants = append(wants, avgOf(head{so.at, so.val}))
						break
					}
				}
			}
			okAvg := false
			for _, w := range wants {
				okAvg = okAvg || near(v, w)
			}
			if !okAvg {
				return fail("C20/average-wrong", "Average() at %v = %v; the source showed %d now and %+v at the first non-zero Average() observation: want one of %v", at, v, last.val, avgBase, wants)
			}
			res.Stat("average_reads_checked", 1)
		}
		// collect the sampler's new observations
		var fresh []obs
		for _, o := range src.log[seen:] {
			if o.sampler {
				fresh = append(fresh, o)
			}
		}
		seen = len(src.log)
		if len(fresh) == 0 {
			continue
		}
		var unseen []int // indices in samplerObs of samples whose effect on the getters was not observed
		for len(fresh) > 1 {
			// several samples within one polling step (a sampler catching up after
			// a stall): the getters could not be read in between, so the earlier
			// ones only join the history as candidates
			e := fresh[0]
			fresh = fresh[1:]
			if n := len(samplerObs); n >= 1 && firstNZ >= 0 && (int64(e.val-samplerObs[n-1].val) < 0 || e.val < samplerObs[n-1].val || e.val == 0) {
				monotone = false
			}
			samplerObs = append(samplerObs, e)
			unseen = append(unseen, len(samplerObs)-1)
			if firstNZ < 0 && e.val != 0 {
				firstNZ = len(samplerObs) - 1
			}
			regular = false
			res.Stat("sampler_observations", 1)
			res.Stat("samples_not_individually_observed", 1)
		}
		o := fresh[0]
		if n := len(samplerObs); n > 0 && o.at-samplerObs[n-1].at != 10*time.Second {
			regular = false
			res.Stat("irregular_sampling_gaps", 1)
		}
		samplerObs = append(samplerObs, o)
		res.Stat("sampler_observations", 1)
		// read the three rates after this sample
		var vals [3]float64
		for i := range g.r {
			v, pan := safe(g.r[i])
			if pan {
				return fail("C20/getter-panic", "rate getter %d panicked on a started meter at %v", i, at)
			}
			if math.IsNaN(v) || math.IsInf(v, 0) || v < 0 {
				return fail("C20/rate-not-finite-nonnegative", "window %v rate = %v after the observation (%v, %d)", wins[i].w, v, o.at, o.val)
			}
			vals[i] = v
		}
		// is the history so far one the exact rule applies to? (non-decreasing,
		// no zero after the first non-zero observation, gap-free 10 s sampling)
		if n := len(samplerObs); n >= 2 && firstNZ >= 0 && n-1 > firstNZ {
			// (a step across 2^64 is a decrease of the plain value: whether it counts
			// as growth modulo 2^64 or as going backwards is left open)
			if int64(o.val-samplerObs[n-2].val) < 0 || o.val < samplerObs[n-2].val || o.val == 0 {
				monotone = false
				res.Stat("histories_going_backwards", 1)
			}
		}
		if firstNZ < 0 && o.val != 0 {
			firstNZ = len(samplerObs) - 1
		}
		for i, w := range wins {
			v := vals[i]
			if firstNZ < 0 {
				if v != 0 {
					return fail("C20/rate-before-first-observation", "window %v reports %v before any non-zero observation", w.w, v)
				}
				continue
			}
			k := len(samplerObs) - 1 - firstNZ // samples since the first non-zero one
			if k == 0 {
				if v != 0 {
					return fail("C20/rate-before-full-window", "window %v reports %v right after the first non-zero observation", w.w, v)
				}
				w.prev = 0
				continue
			}
			per := int(w.w / (10 * time.Second))
			strict := regular && monotone
			if strict {
				// gap-free 10 s sampling of a non-decreasing counter: exact rule
				want := w.prev
				due := k%per == 0
				if due {
					h := samplerObs[len(samplerObs)-1-per]
					want = rate(h.val, o.val, w.w, scale)
					fired[i]++
				}
				if !near(v, want) {
					key := "C20/rate-wrong"
					if v > 1e15 && want < 1e12 {
						key = "C20/rate-astronomic"
					}
					return fail(fmt.Sprintf("%s:%ds", key, int(w.w/time.Second)), "window %v, sample %d since the first non-zero observation (due=%v), observation (%v, %d): reported %v, want %v (the counter's increase since the sample %v earlier divided by the window; unchanged when the window is not due)", w.w, k, due, o.at, o.val, v, want, w.w)
				}
				w.prev = v
				continue
			}
			// irregular sampling or a counter that went backwards: a changed rate
			// must be the increase against SOME earlier observation at least one
			// window old (0 if the counter is not above it)
			okStale := near(v, w.prev)
			okFired := false
			// the rate may stem from this sample or from one of the samples taken
			// within the same polling step (whose effect could not be read)
			ends := append(append([]int(nil), unseen...), len(samplerObs)-1)
			for _, ei := range ends {
				e := samplerObs[ei]
				if ei < firstNZ {
					continue
				}
				for _, h := range samplerObs[firstNZ:ei] {
					if e.at-h.at >= w.w && near(v, rate(h.val, e.val, w.w, scale)) {
						okFired = true
					}
				}
				if ei == firstNZ && v == 0 {
					okFired = true
				}
			}
			// gap-free sampling of a counter that went backwards earlier: however
			// the window is anchored (time or sample count, re-anchored or not at
			// the backward step), it closes once in any run of w/10s samples that
			// holds no backward step, and closing at a sample means reporting the
			// increase against the observation exactly one window earlier
			n := len(samplerObs) - 1
			event := false // this sample, or one taken within the same polling step
			for _, ei := range ends {
				if samplerObs[ei].val == 0 || (ei >= 1 && (int64(samplerObs[ei].val-samplerObs[ei-1].val) < 0 || samplerObs[ei].val < samplerObs[ei-1].val || samplerObs[ei-1].val == 0)) {
					event = true
				}
			}
			if i == 0 {
				eventFree++
				if event || !regular {
					eventFree = 0
				}
			}
			switch {
			case !regular || event || n-per < firstNZ:
				staleRun[i] = 0
			case near(v, rate(samplerObs[n-per].val, o.val, w.w, scale)):
				staleRun[i] = 0
			case okFired && !okStale:
				staleRun[i] = 0 // it visibly closed at this sample, against an older observation
			default:
				staleRun[i]++
				// (a window re-anchored at or right after such a step closes one full
				// window later: only runs a whole window away from the step count)
				if staleRun[i] >= per && eventFree >= 2*per && okStale {
					return fail(fmt.Sprintf("C20/rate-overdue:%ds", int(w.w/time.Second)), "window %v after observation (%v, %d): still reports %v; in the last %d gap-free samples, none a backward step, it never reported the increase against the observation one window earlier (now %v)", w.w, o.at, o.val, v, per, rate(samplerObs[n-per].val, o.val, w.w, scale))
				}
			}
			if n >= 1 && o.at-samplerObs[n-1].at >= w.w && okStale && !okFired && !event && n-1 >= firstNZ {
				// the gap since the previous sample alone is a full window: whatever
				// the window's previous sample is, it is at least one window old, so
				// the window closes at this sample and reports the increase since
				res.Stat("samples_after_a_gap_of_a_full_window", 1)
				return fail(fmt.Sprintf("C20/rate-overdue-after-gap:%ds", int(w.w/time.Second)), "window %v after observation (%v, %d): still reports the previous value %v although the previous sample was taken %v earlier", w.w, o.at, o.val, v, o.at-samplerObs[n-1].at)
			}
			if event && v == 0 {
				// at a backward step or a zero observation the meter may start over
				// ("yields 0"): 0 now, and 0 until a full window has passed
				okFired = true
			}
			if !okStale && !okFired {
				key := "C20/rate-wrong"
				if v > 1e15 {
					key = "C20/rate-astronomic"
				}
				return fail(fmt.Sprintf("%s-irregular:%ds", key, int(w.w/time.Second)), "window %v after observation (%v, %d): reported %v, which is neither the previous value %v nor the increase against any earlier observation at least %v old divided by the window (regular=%v monotone=%v)", w.w, o.at, o.val, v, w.prev, w.w, regular, monotone)
			}
			if okFired && !okStale {
				fired[i]++
			}
			w.prev = v
		}
	}
	res.Stat("window_10s_fired", int64(fired[0]))
	res.Stat("window_30s_fired", int64(fired[1]))
	res.Stat("window_300s_fired", int64(fired[2]))
	res.Stat("source_stalls_fired", int64(src.stalled))
	src.settle()
	if err := closeFn(); err != nil {
		return res.Fail("C20/close-error", "%v", err)
	}
	time.Sleep(11 * time.Second) // the sampler leaves within one period
	syncWait()
	res.SimTimeMs = int64(time.Since(src.t0) / time.Millisecond)
	res.Nontrivial = len(samplerObs) >= 2
	res.Hash = kernel.HashBytes([]byte(fmt.Sprintf("%v|%v", samplerObs, fired)))
	res.Inter = uint64(len(samplerObs))<<20 ^ uint64(src.stalled)
	res.State = uint64(fired[0])<<40 ^ uint64(fired[1])<<20 ^ uint64(fired[2]) ^ uint64(p.C("kind"))<<60
	return res
}

func dedupe(h []head) []head {
	var out []head
	for _, x := range h {
		dup := false
		for _, y := range out {
			if x == y {
				dup = true
			}
		}
		if !dup {
			out = append(out, x)
		}
	}
	if len(out) > 8 {
		out = out[:8]
	}
	return out
}

var Check = &kernel.Check{
	ID: "C20", Gen: gen, Run: run, Bubble: true,
	// a sampler goroutine that never leaves after Close() is outside the statement
	IgnoreBubbleLeak: true,
	Simpler: map[string][]int64{"startAt": {0}, "first": {0, 1}, "dur": {45000, 130000, 400000}},
}

func TestCheck(t *testing.T) { kernel.Drive(t, Check) }
