package c20

import "testing/synctest"

func syncWait() { synctest.Wait() }
