// C18: every context created for a new connection carries an id different from
// every other one, however many goroutines create contexts at the same time; an
// aliased context carries its source's id; each logging call emits exactly one
// complete line with the id of the context passed; no data race.
//
// Runs on the race engine (raw futex gates, -race build). The logger package is
// the go/ast-rewritten scratch copy, so the tape can preempt between the
// increment of the id counter and its re-read, and between the load and the
// store of the increment itself.
package c18

import (
	"errors"
	"context"
	"fmt"
	"io"
	"os"
	"regexp"
	"strconv"
	"strings"
	"testing"

	"github.com/ossrs/go-oryx-lib/logger"
	"verif/sim/kernel"
)

const maxTasks = 8

func gen(g *kernel.Rng, seed uint64, tier string) *kernel.Plan {
	p := &kernel.Plan{Property: "C18", Seed: seed, Cfg: map[string]int64{}}
	nt := g.Range(2, maxTasks)
	p.Cfg["tasks"] = int64(nt)
	p.Cfg["closer"] = int64(g.Intn(2)) // is the writer handed to Switch an io.Closer?
	p.Cfg["spare"] = int64(g.Intn(2))  // operands passed as a reused slice with spare capacity
	p.Cfg["reopen"] = int64(g.Pick(3, 1)) // Switch(w); Close(); Switch(w): the same writer installed again
	p.Cfg["failAt"] = -1              // one Write of the writer fails (the writer works again afterwards)
	if g.Bool(0.25) {
		p.Cfg["failAt"] = int64(g.Range(0, 8))
	}
	for t := 0; t < nt; t++ {
		n := g.Range(1, 6)
		for i := 0; i < n; i++ {
			switch g.Pick(5, 2, 5) {
			case 0:
				// parent: 0 background, 1 context without id, 2 own latest context (which has an id)
				p.Ops = append(p.Ops, kernel.Op{K: "wc", T: t, N: []int64{int64(g.Intn(3))}})
			case 1:
				// source: 0 nil, 1 own latest context (has id), 2 context without id
				// parent: 0 background, 1 own first context (carries its own, possibly different, id), 2 context without id
				p.Ops = append(p.Ops, kernel.Op{K: "alias", T: t, N: []int64{int64(g.Intn(3)), int64(g.Intn(3))}})
			default:
				// [level, printf?, ctx kind (0 nil, 1 cid object, 2 own latest context, 3 context without id), msg seed, msg len]
				p.Ops = append(p.Ops, kernel.Op{K: "log", T: t, N: []int64{int64(g.Intn(4)), int64(g.Intn(2)), int64(g.Intn(4)), int64(g.U32()), int64(g.Range(0, 40))}})
			}
		}
	}
	p.Tape = kernel.GenTape(g, g.Range(10, 200), 0.1)
	p.TapeSeed = g.U64() | 1
	return p
}

type cidObj struct{ id int }

func (c *cidObj) Cid() int { return c.id }

type wr struct {
	task int
	b    []byte
}

// simWriter is the writer installed with logger.Switch. It is an io.Closer, so
// the library's colour-escape path to stdout is off. Every Write is one event.
type simWriter struct {
	s      *kernel.Sched
	writes []wr
	failAt int // index of the one Write that fails (-1: none)
	failed int
}

var errDiskHiccup = errors.New("sim writer: temporary failure")

//go:norace
func (w *simWriter) Write(b []byte) (int, error) {
	id := -1
	if t := w.s.Cur(); t != nil {
		id = t.ID
	}
	w.writes = append(w.writes, wr{id, append([]byte(nil), b...)})
	if w.failAt >= 0 && len(w.writes)-1 == w.failAt {
		// the line was handed over (that is all the statement asks of the
		// library); the writer reports a failure for it, once
		w.failed++
		return 0, errDiskHiccup
	}
	return len(b), nil
}
func (w *simWriter) Close() error { return nil }

type ctxRec struct {
	ctx     context.Context
	fresh   bool // created by WithContext / AliasContext without a source id
	source  int  // index of the source context (alias), -1
	task    int
	id      int // learned at the end
}

type logRec struct {
	level, printf int64
	ctxKind       int64
	ctxIdx        int // for kind 2
	objID         int
	msg           string
}

var lineRe = regexp.MustCompile(`^\[(info|trace|warn|error)\] \d{4}/\d\d/\d\d \d\d:\d\d:\d\d\.\d{6} (?:\[(\d+)\](?:\[(\d+)\])?\s+)?(.*)\n$`)

func msgOf(seed, n int64) string {
	b := kernel.Fill(int(n), uint64(seed))
	for i := range b {
		b[i] = "abcdefghijklmnopqrstuvwxyz0123456789 _-:[]%"[int(b[i])%43]
	}
	return "m" + string(b) + "."
}

func run(p *kernel.Plan) (res *kernel.Result) {
	res = &kernel.Result{}
	nt := int(p.C("tasks"))
	if nt < 1 || nt > maxTasks {
		res.Invalid = true
		return
	}
	for _, o := range p.Ops {
		if o.T < 0 || o.T >= nt {
			res.Invalid = true
			return
		}
		switch o.K {
		case "wc", "alias":
			if len(o.N) < 1 {
				res.Invalid = true
				return
			}
		case "log":
			if len(o.N) < 5 || o.N[4] < 0 || o.N[4] > 200 {
				res.Invalid = true
				return
			}
		default:
			res.Invalid = true
			return
		}
	}
	tape := kernel.NewTape(p)
	s := kernel.NewSched(kernel.ModeFutex, tape, 200000)
	w := &simWriter{s: s, failAt: int(p.CD("failAt", -1))}
	logger.Close() // forget any closer remembered from an earlier run in this process
	var lw io.Writer = w
	if p.C("closer") == 0 {
		// a plain io.Writer: the library then sends colour escapes for warn/error
		// lines to the process's stdout, never to the current writer
		lw = struct{ io.Writer }{w}
	}
	logger.Switch(lw)
	if p.C("reopen") != 0 {
		// log rotation: the same writer is installed again after a Close
		logger.Close()
		logger.Switch(lw)
	}
	installHook(func(point string) {
		// no preemption while the task holds a mutex of the library: a task
		// parked there would block the others on a real lock
		if t := s.Cur(); t != nil && t.LockDepth <= 0 {
			t.Yield(point)
		}
	})
	installLock(func(delta int) {
		if t := s.Cur(); t != nil {
			t.LockDepth += delta
		}
	})
	defer installHook(nil)
	// per task: contexts created and log calls made (each slice touched by its task only)
	ctxs := make([][]*ctxRec, nt)
	logs := make([][]logRec, nt)
	noID := context.WithValue(context.Background(), "other", 1)
	// messages are prepared outside the tasks (no fmt inside race-engine tasks)
	msgs := make([]string, len(p.Ops))
	for i, o := range p.Ops {
		if o.K == "log" {
			msgs[i] = msgOf(o.N[3], o.N[4])
		}
	}
	spare := p.C("spare") != 0
	for t := 0; t < nt; t++ {
		t := t
		// the application's operand slices: reused from call to call, with room to grow
		opnd := make([]interface{}, 1, 8)
		opndf := make([]interface{}, 2, 8)
		s.Go("T"+strconv.Itoa(t), func(tk *kernel.Task) {
			for i, o := range p.Ops {
				if o.T != t {
					continue
				}
				tk.Yield("op")
				switch o.K {
				case "wc":
					parent := context.Background()
					switch o.N[0] {
					case 1:
						parent = noID
					case 2:
						if n := len(ctxs[t]); n > 0 {
							parent = ctxs[t][n-1].ctx
						}
					}
					c := logger.WithContext(parent)
					ctxs[t] = append(ctxs[t], &ctxRec{ctx: c, fresh: true, source: -1, task: t})
				case "alias":
					var src context.Context
					rec := &ctxRec{source: -1, task: t}
					switch o.N[0] {
					case 1:
						if n := len(ctxs[t]); n > 0 {
							src = ctxs[t][n-1].ctx
							rec.source = n - 1
						}
					case 2:
						src = noID
					}
					rec.fresh = rec.source < 0
					parent := context.Background()
					if len(o.N) > 1 {
						switch o.N[1] {
						case 1:
							if len(ctxs[t]) > 0 {
								parent = ctxs[t][0].ctx
							}
						case 2:
							parent = noID
						}
					}
					rec.ctx = logger.AliasContext(parent, src)
					ctxs[t] = append(ctxs[t], rec)
				case "log":
					lr := logRec{level: o.N[0], printf: o.N[1], ctxKind: o.N[2], msg: msgs[i], ctxIdx: -1}
					var ctx logger.Context
					switch o.N[2] {
					case 1:
						lr.objID = 100000 + i
						ctx = &cidObj{lr.objID}
					case 2:
						if n := len(ctxs[t]); n > 0 {
							ctx = ctxs[t][n-1].ctx
							lr.ctxIdx = n - 1
						} else {
							lr.ctxKind = 0
						}
					case 3:
						ctx = noID
					}
					logs[t] = append(logs[t], lr)
					if lr.printf == 0 && spare {
						opnd[0] = lr.msg
						again := 1
						if o.N[3]%3 == 0 {
							// the application logs the very same operand slice a second
							// time, without touching it in between
							again = 2
							logs[t] = append(logs[t], lr)
						}
						for k := 0; k < again; k++ {
							switch lr.level {
							case 0:
								logger.I(ctx, opnd...)
							case 1:
								logger.T(ctx, opnd...)
							case 2:
								logger.W(ctx, opnd...)
							default:
								logger.E(ctx, opnd...)
							}
						}
					} else if lr.printf == 0 {
						switch lr.level {
						case 0:
							logger.I(ctx, lr.msg)
						case 1:
							logger.T(ctx, lr.msg)
						case 2:
							logger.W(ctx, lr.msg)
						default:
							logger.E(ctx, lr.msg)
						}
					} else if o.N[3]%4 == 1 {
						// Printf-style without operands: the format is the message
						// with every percent sign escaped
						f := strings.Replace(msgs[i], "%", "%%", -1) + " 100%%"
						lr.msg = msgs[i] + " 100%"
						logs[t][len(logs[t])-1] = lr
						switch lr.level {
						case 0:
							logger.If(ctx, f)
						case 1:
							logger.Tf(ctx, f)
						case 2:
							logger.Wf(ctx, f)
						default:
							logger.Ef(ctx, f)
						}
					} else if spare {
						lr.msg = msgs[i] + " 7%"
						logs[t][len(logs[t])-1] = lr
						opndf[0], opndf[1] = msgs[i], 7
						switch lr.level {
						case 0:
							logger.If(ctx, "%s %d%%", opndf...)
						case 1:
							logger.Tf(ctx, "%s %d%%", opndf...)
						case 2:
							logger.Wf(ctx, "%s %d%%", opndf...)
						default:
							logger.Ef(ctx, "%s %d%%", opndf...)
						}
					} else {
						// Printf-style: the message is an argument and the format
						// itself carries an escaped percent sign
						lr.msg = msgs[i] + " 7%"
						logs[t][len(logs[t])-1] = lr
						switch lr.level {
						case 0:
							logger.If(ctx, "%s %d%%", msgs[i], 7)
						case 1:
							logger.Tf(ctx, "%s %d%%", msgs[i], 7)
						case 2:
							logger.Wf(ctx, "%s %d%%", msgs[i], 7)
						default:
							logger.Ef(ctx, "%s %d%%", msgs[i], 7)
						}
					}
				}
			}
		})
	}
	err := s.Run()
	var stuck []string
	if err != nil {
		stuck = s.Unfinished()
		s.Abort()
	}
	s.Join()
	installHook(nil)
	installLock(nil)
	res.Hash, res.Inter = s.Log.Hash(), s.Log.Interleaving()
	res.Stat("preemption_yields", int64(s.Steps))
	res.Stat("task_switches", int64(s.Switches))
	res.Stat("race_engine_runs", 1)
	res.Stat("releases_left_blocked_on_a_real_lock", int64(s.RealBlocked))
	if preemptionPoints {
		res.Stat("runs_with_inserted_preemption_points", 1)
	}
	res.Nontrivial = s.Switches > 2
	if t, ok := s.FirstPanic(); ok {
		return res.Fail("C18/panic", "task %s: %v\n%s", t.Name, t.Panic, t.Stack)
	}
	if err != nil {
		return res.Fail("harness/run", "%v %v", err, stuck)
	}
	// ---- the writes made during the run: one whole line per logging call ----
	pid := strconv.Itoa(os.Getpid())
	during := w.writes
	perTask := make([][]wr, nt)
	for _, x := range during {
		if x.task < 0 || x.task >= nt {
			return res.Fail("C18/write-outside-call", "the writer received %q outside any task", x.b)
		}
		perTask[x.task] = append(perTask[x.task], x)
	}
	type parsed struct{ label, pid, cid, msg string }
	// '<level label><timestamp> [pid][cid] message\n'; the timestamp's own format
	// is not prescribed, so it is whatever lies between the label and '[pid]'
	parse := func(b []byte) (parsed, bool) {
		s := string(b)
		if !strings.HasSuffix(s, "\n") || strings.Count(s, "\n") != 1 {
			return parsed{}, false
		}
		s = s[:len(s)-1]
		var pl parsed
		for _, l := range []string{"info", "trace", "warn", "error"} {
			if strings.HasPrefix(s, "["+l+"] ") {
				pl.label = l
				s = s[len(l)+3:]
			}
		}
		if pl.label == "" {
			return parsed{}, false
		}
		i := strings.Index(s, "["+pid+"]")
		if i < 0 {
			// no pid prefix at all (allowed only for a context without id): the
			// rest after the timestamp is the message
			if m := lineRe.FindSubmatch(b); m != nil {
				pl.msg = string(m[4])
				return pl, true
			}
			pl.msg = s
			return pl, true
		}
		if i == 0 || strings.ContainsAny(s[:i], "[]") {
			return parsed{}, false // timestamp missing or malformed
		}
		pl.pid = pid
		s = s[i+len(pid)+2:]
		if strings.HasPrefix(s, "[") {
			j := strings.Index(s, "]")
			if j > 1 {
				if _, err := strconv.Atoi(s[1:j]); err == nil {
					pl.cid = s[1:j]
					s = s[j+1:]
				}
			}
		}
		pl.msg = strings.TrimLeft(s, " ")
		return pl, true
	}
	// learn every context's id now, sequentially, from the main goroutine
	w.writes = nil
	w.failAt = -1
	for t := 0; t < nt; t++ {
		for _, c := range ctxs[t] {
			w.writes = w.writes[:0]
			logger.T(c.ctx, "probe")
			if len(w.writes) != 1 {
				return res.Fail("C18/probe", "probe line produced %d writes", len(w.writes))
			}
			pl, ok := parse(w.writes[0].b)
			if !ok || pl.cid == "" {
				return res.Fail("C18/context-without-id", "a context made by the library logs as %q: no [pid][cid] prefix", w.writes[0].b)
			}
			c.id, _ = strconv.Atoi(pl.cid)
		}
	}
	// ids of fresh contexts are pairwise distinct; aliases carry their source's id
	owner := map[int]*ctxRec{}
	fresh := 0
	for t := 0; t < nt; t++ {
		for _, c := range ctxs[t] {
			if c.fresh {
				fresh++
				if o, dup := owner[c.id]; dup {
					return res.Fail("C18/duplicate-id", "connection id %d was handed out twice: to a context created by task %d and to one created by task %d", c.id, o.task, c.task)
				}
				owner[c.id] = c
			} else if src := ctxs[t][c.source]; src.id != c.id {
				return res.Fail("C18/alias-id", "an aliased context carries id %d, its source carries %d", c.id, src.id)
			}
		}
	}
	res.Stat("contexts_created", int64(fresh))
	labels := []string{"info", "trace", "warn", "error"}
	for t := 0; t < nt; t++ {
		wi := 0
		for li, lr := range logs[t] {
			if wi >= len(perTask[t]) {
				if lr.level == 0 {
					continue // the info level is routed to a discard writer
				}
				return res.Fail("C18/line-missing", "task %d: logging call %d (%s, message %q) produced no write", t, li, labels[lr.level], lr.msg)
			}
			x := perTask[t][wi]
			pl, ok := parse(x.b)
			if ok && pl.label != labels[lr.level] && lr.level == 0 {
				continue // info call emitted nothing; this write belongs to a later call
			}
			wi++
			if !ok {
				return res.Fail("C18/line-malformed", "task %d: logging call %d wrote %q, which is not one complete '<label><timestamp> [pid][cid] message' line", t, li, x.b)
			}
			if pl.label != labels[lr.level] {
				return res.Fail("C18/line-label", "task %d: call %d at level %s wrote a %s line %q", t, li, labels[lr.level], pl.label, x.b)
			}
			if pl.msg != lr.msg {
				return res.Fail("C18/line-message", "task %d: call %d with message %q wrote %q", t, li, lr.msg, x.b)
			}
			wantCid := ""
			switch lr.ctxKind {
			case 1:
				wantCid = strconv.Itoa(lr.objID)
			case 2:
				wantCid = strconv.Itoa(ctxs[t][lr.ctxIdx].id)
			case 3:
				continue // a context without an id: prefix not specified by the statement
			}
			if pl.pid != pid {
				return res.Fail("C18/line-pid", "task %d: call %d wrote pid %q, want %s: %q", t, li, pl.pid, pid, x.b)
			}
			if pl.cid != wantCid {
				return res.Fail("C18/line-cid", "task %d: call %d was passed the context with id %q but wrote %q", t, li, wantCid, x.b)
			}
			res.Stat("log_lines_checked", 1)
		}
		if wi != len(perTask[t]) {
			return res.Fail("C18/line-extra", "task %d made %d logging calls but %d writes reached the writer (extra: %q)", t, len(logs[t]), len(perTask[t]), perTask[t][wi].b)
		}
	}
	res.State = uint64(fresh)<<16 ^ uint64(len(during))
	return res
}

var Check = &kernel.Check{
	ID: "C18", Gen: gen, Run: run, Race: true,
	LibPaths: []string{"/repo/logger/", "go-oryx-lib/logger"},
	Probes: func() map[string]*kernel.Plan {
		return map[string]*kernel.Plan{
			// fixed: two tasks interleaved between the increment of the id counter and its re-read
			"two-creators": {Property: "C18", Cfg: map[string]int64{"tasks": 2}, Tape: []uint32{0, 1, 0, 1, 0, 1, 0, 1, 0, 1, 0, 1}, Ops: []kernel.Op{
				{K: "wc", T: 0, N: []int64{0}}, {K: "wc", T: 1, N: []int64{0}},
			}},
		}
	},
}

func TestCheck(t *testing.T) { kernel.Drive(t, Check) }

var _ = fmt.Sprint
