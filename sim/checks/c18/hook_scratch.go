//go:build c18scratch

package c18

import "github.com/ossrs/go-oryx-lib/simyield"

// built against the rewritten scratch copy: preemption points are live
const preemptionPoints = true

func installHook(h func(point string)) { simyield.Hook = h }

func installLock(h func(delta int)) { simyield.Lock = h }
