//go:build !c18scratch

package c18

// built against /repo as it is: no preemption points inside the package
const preemptionPoints = false

func installHook(h func(point string)) {}

func installLock(h func(delta int)) {}
